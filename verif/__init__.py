"""Bounded exhaustive exploration (model checking) of Vanderhoof/PyDBML properties.

Run a check with:  /venv/bin/python -m verif.check C01 --tier quick
"""
