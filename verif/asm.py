"""E2a: abstract schema model = the canonical form of verif.canon, built by plain constructors.
No pydbml import here: the expected model is known by construction."""
from __future__ import annotations

import copy


def col(name, type_='int', pk=False, unique=False, not_null=False, autoinc=False, default=None,
        note='', comment=None, properties=None):
    t = type_ if isinstance(type_, list) else ['str', type_]
    return {'name': name, 'type': t, 'pk': pk, 'unique': unique, 'not_null': not_null, 'autoinc': autoinc,
            'default': default if default is not None else ['none'], 'note': note, 'comment': comment,
            'properties': [list(p) for p in (properties or [])]}


def index(subjects, name=None, unique=False, type_=None, pk=False, note='', comment=None):
    subs = [s if isinstance(s, list) else ['col', s] for s in subjects]
    return {'subjects': subs, 'name': name, 'unique': unique, 'type': type_, 'pk': pk, 'note': note,
            'comment': comment}


def table(name, columns, schema='public', alias=None, note='', header_color=None, indexes=None,
          properties=None, comment=None):
    return {'schema': schema, 'name': name, 'alias': alias, 'note': note, 'header_color': header_color,
            'properties': [list(p) for p in (properties or [])],
            'columns': list(columns), 'indexes': list(indexes or []), 'comment': comment}


def enum(name, items, schema='public', comment=None):
    its = []
    for i in items:
        if isinstance(i, str):
            i = {'name': i, 'note': '', 'comment': None}
        its.append(i)
    return {'schema': schema, 'name': name, 'items': its, 'comment': comment}


def item(name, note='', comment=None):
    return {'name': name, 'note': note, 'comment': comment}


def ref(type_, col1, col2, name=None, on_update=None, on_delete=None, inline=False, comment=None):
    """col1/col2: list of [schema, table, column]."""
    return {'type': type_, 'col1': [list(c) for c in col1], 'col2': [list(c) for c in col2], 'name': name,
            'on_update': on_update, 'on_delete': on_delete, 'inline': inline, 'comment': comment}


def group(name, items, note='', color=None, comment=None):
    return {'name': name, 'items': [list(i) for i in items], 'note': note, 'color': color, 'comment': comment}


def sticky(name, text):
    return {'name': name, 'text': text}


def project(name, items=None, note='', comment=None):
    return {'name': name, 'items': [list(i) for i in (items or [])], 'note': note, 'comment': comment}


def model(tables=(), enums=(), refs=(), groups=(), notes=(), project=None, allow_properties=False):
    return {'tables': list(tables), 'enums': list(enums), 'refs': list(refs), 'groups': list(groups),
            'notes': list(notes), 'project': project, 'allow_properties': allow_properties}


def clone(m):
    return copy.deepcopy(m)


def find_table(m, schema, name):
    for t in m['tables']:
        if t['schema'] == schema and t['name'] == name:
            return t
    return None
