"""E2c: build a live Database from an abstract model through the public classes only."""
from __future__ import annotations


def untag_default(d):
    from pydbml.classes import Expression
    k = d[0]
    if k == 'none':
        return None
    if k == 'expr':
        return Expression(d[1])
    return d[1]


def build(m, share_notes=False, **db_kwargs):
    """share_notes: pass one and the same Note object for every equal note text (a caller may legitimately reuse a Note);
    the classes must copy it, so the result must not differ from share_notes=False."""
    from pydbml import Database
    from pydbml.classes import (Column, Enum, EnumItem, Expression, Index, Note, Project, Reference,
                                StickyNote, Table, TableGroup)
    kw = dict(db_kwargs)
    _notes = {}

    def N(text):
        if not text:
            return None
        if not share_notes:
            return text
        if text not in _notes:
            _notes[text] = Note(text)
        return _notes[text]
    kw.setdefault('allow_properties', m.get('allow_properties', False))
    db = Database(**kw)
    enums = {}
    for e in m['enums']:
        items = [EnumItem(i['name'], note=i['note'] or None, comment=i['comment']) for i in e['items']]
        eo = Enum(e['name'], items, schema=e['schema'], comment=e['comment'])
        db.add(eo)
        enums[(e['schema'], e['name'])] = eo
    tables = {}
    for t in m['tables']:
        to = Table(t['name'], schema=t['schema'], alias=t['alias'], note=N(t['note']),
                   header_color=t['header_color'], comment=t['comment'],
                   properties=dict(t['properties']) if t['properties'] else None)
        for c in t['columns']:
            ty = c['type']
            tyo = enums[(ty[1], ty[2])] if ty[0] == 'enum' else ty[1]
            co = Column(c['name'], tyo, unique=c['unique'], not_null=c['not_null'], pk=c['pk'],
                        autoinc=c['autoinc'], default=untag_default(c['default']),
                        note=N(c['note']), comment=c['comment'],
                        properties=dict(c['properties']) if c['properties'] else None)
            to.add_column(co)
        for i in t['indexes']:
            subs = []
            for s in i['subjects']:
                if s[0] == 'col':
                    subs.append(to[s[1]])
                elif s[0] == 'expr':
                    subs.append(Expression(s[1]))
                else:
                    subs.append(s[1])
            to.add_index(Index(subs, name=i['name'], unique=i['unique'], type=i['type'], pk=i['pk'],
                               note=i['note'] or None, comment=i['comment']))
        db.add(to)
        tables[(t['schema'], t['name'])] = to
    for g in m['groups']:
        db.add(TableGroup(g['name'], [tables[tuple(i)] for i in g['items']], comment=g['comment'],
                          note=Note(g['note']) if g['note'] else None, color=g['color']))
    for n in m['notes']:
        db.add(StickyNote(n['name'], n['text']))
    if m['project'] is not None:
        p = m['project']
        db.add(Project(p['name'], items=dict(p['items']), note=p['note'] or None, comment=p['comment']))
    for r in m['refs']:
        c1 = [tables[(s, t)][c] for s, t, c in r['col1']]
        c2 = [tables[(s, t)][c] for s, t, c in r['col2']]
        db.add(Reference(r['type'], c1, c2, name=r['name'], comment=r['comment'], on_update=r['on_update'],
                         on_delete=r['on_delete'], inline=r['inline']))
    return db
