"""E1: canonical content of a live pydbml Database, read through public attributes only.

The canonical form is made of dicts / lists / scalars (JSON-able) and is *also* the abstract
schema model used by the generators (verif.asm): the expected value of ``canon(parse(write(m)))``
is ``m`` itself.
"""
from __future__ import annotations


def tag_default(d):
    from pydbml.classes import Expression
    if d is None:
        return ['none']
    if isinstance(d, bool):
        return ['bool', d]
    if isinstance(d, int):
        return ['int', d]
    if isinstance(d, float):
        return ['float', d]
    if isinstance(d, str):
        return ['str', d]
    if isinstance(d, Expression):
        return ['expr', d.text]
    return ['other', repr(d)]


def note_text(n):
    if n is None:
        return ''
    return n.text if hasattr(n, 'text') else str(n)


def canon_type(t):
    from pydbml.classes import Enum
    if isinstance(t, Enum):
        return ['enum', t.schema, t.name]
    return ['str', t]


def canon_column(c, comments=True):
    r = {
        'name': c.name,
        'type': canon_type(c.type),
        'pk': _flag(c.pk), 'unique': _flag(c.unique), 'not_null': _flag(c.not_null), 'autoinc': _flag(c.autoinc),
        'default': tag_default(c.default),
        'note': note_text(c.note),
        'properties': [[k, v] for k, v in (c.properties or {}).items()],
    }
    if comments:
        r['comment'] = c.comment
    return r


def _flag(v):
    # flags must be real booleans; anything else is reported verbatim so it cannot equal True/False
    return v if isinstance(v, bool) else ['notbool', repr(v)]


def canon_subject(s):
    from pydbml.classes import Column, Expression
    if isinstance(s, Column):
        return ['col', s.name]
    if isinstance(s, Expression):
        return ['expr', s.text]
    return ['str', s]


def canon_index(i, comments=True):
    r = {
        'subjects': [canon_subject(s) for s in i.subjects],
        'name': i.name, 'unique': _flag(i.unique), 'type': i.type, 'pk': _flag(i.pk),
        'note': note_text(i.note),
    }
    if comments:
        r['comment'] = i.comment
    return r


def canon_table(t, comments=True):
    r = {
        'schema': t.schema, 'name': t.name, 'alias': t.alias,
        'note': note_text(t.note), 'header_color': t.header_color,
        'properties': [[k, v] for k, v in (t.properties or {}).items()],
        'columns': [canon_column(c, comments) for c in t.columns],
        'indexes': [canon_index(i, comments) for i in t.indexes],
    }
    if comments:
        r['comment'] = t.comment
    return r


def canon_enum(e, comments=True):
    r = {'schema': e.schema, 'name': e.name, 'items': []}
    for it in e.items:
        x = {'name': it.name, 'note': note_text(it.note)}
        if comments:
            x['comment'] = it.comment
        r['items'].append(x)
    if comments:
        r['comment'] = e.comment
    return r


def _endpoint(c):
    t = c.table
    return [t.schema if t is not None else None, t.name if t is not None else None, c.name]


def canon_ref(r, comments=True):
    x = {
        'type': r.type,
        'col1': [_endpoint(c) for c in r.col1],
        'col2': [_endpoint(c) for c in r.col2],
        'name': r.name, 'on_update': r.on_update, 'on_delete': r.on_delete,
        'inline': _flag(r.inline),
    }
    if comments:
        x['comment'] = r.comment
    return x


def canon_group(g, comments=True):
    x = {
        'name': g.name,
        'items': [[t.schema, t.name] for t in g.items],
        'note': note_text(g.note), 'color': g.color,
    }
    if comments:
        x['comment'] = g.comment
    return x


def canon_project(p, comments=True):
    if p is None:
        return None
    x = {'name': p.name, 'items': [[k, v] for k, v in p.items.items()], 'note': note_text(p.note)}
    if comments:
        x['comment'] = p.comment
    return x


def canon(db, comments=True):
    return {
        'tables': [canon_table(t, comments) for t in db.tables],
        'enums': [canon_enum(e, comments) for e in db.enums],
        'refs': [canon_ref(r, comments) for r in db.refs],
        'groups': [canon_group(g, comments) for g in db.table_groups],
        'notes': [{'name': n.name, 'text': n.text} for n in db.sticky_notes],
        'project': canon_project(db.project, comments),
        'allow_properties': db.allow_properties,
    }


def strip_comments(m):
    """Remove every 'comment' key from a canonical model (deep copy)."""
    if isinstance(m, dict):
        return {k: strip_comments(v) for k, v in m.items() if k != 'comment'}
    if isinstance(m, list):
        return [strip_comments(v) for v in m]
    return m


def diff(a, b, path=''):
    """First few differing paths between two canonical values (for messages)."""
    out = []
    _diff(a, b, path, out)
    return out[:6]


def _diff(a, b, path, out):
    if len(out) >= 6:
        return
    if type(a) is not type(b):
        out.append(f'{path}: {a!r} != {b!r}')
    elif isinstance(a, dict):
        for k in sorted(set(a) | set(b)):
            if k not in a:
                out.append(f'{path}.{k}: missing on left, right={b[k]!r}')
            elif k not in b:
                out.append(f'{path}.{k}: left={a[k]!r}, missing on right')
            else:
                _diff(a[k], b[k], f'{path}.{k}', out)
    elif isinstance(a, list):
        if len(a) != len(b):
            out.append(f'{path}: length {len(a)} != {len(b)}: {a!r} != {b!r}'[:400])
        else:
            for i, (x, y) in enumerate(zip(a, b)):
                _diff(x, y, f'{path}[{i}]', out)
    elif a != b:
        out.append(f'{path}: {a!r} != {b!r}')


def key(m) -> str:
    """Strict canonical key: distinguishes True/1/1.0, preserves list order."""
    import json
    return json.dumps(m, sort_keys=True, ensure_ascii=False, default=repr)


def same(a, b) -> bool:
    return key(a) == key(b)


def diff_items(a, b, limit=12):
    """Structured differences: list of [path, left, right] (left/right None + marker when missing)."""
    out = []
    _diff_items(a, b, '', out, limit)
    return out


def _diff_items(a, b, path, out, limit):
    if len(out) >= limit:
        return
    if type(a) is not type(b):
        out.append([path, a, b])
    elif isinstance(a, dict):
        for k in sorted(set(a) | set(b)):
            if k not in a or k not in b:
                out.append([f'{path}.{k}', a.get(k, '<missing>'), b.get(k, '<missing>')])
            else:
                _diff_items(a[k], b[k], f'{path}.{k}', out, limit)
    elif isinstance(a, list):
        if len(a) != len(b) or (a and not isinstance(a[0], (dict, list))):
            if key(a) != key(b):
                out.append([path, a, b])
        else:
            for i, (x, y) in enumerate(zip(a, b)):
                _diff_items(x, y, f'{path}[{i}]', out, limit)
    elif a != b:
        out.append([path, a, b])


def partition_refs(m):
    """DBML cannot express the relative order of inline and standalone references (inline ones live in
    their table): compare the two sub-sequences separately."""
    m = dict(m)
    m['refs_inline'] = [r for r in m['refs'] if r['inline'] is True]
    m['refs_standalone'] = [r for r in m['refs'] if r['inline'] is not True]
    del m['refs']
    return m
