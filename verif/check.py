"""CLI:  python -m verif.check C01 [--tier quick|thorough] [--seed N] [--jobs N]"""
import argparse
import os
import sys

os.environ.setdefault('PYTHONHASHSEED', '0')
sys.dont_write_bytecode = True


def main():
    ap = argparse.ArgumentParser()
    ap.add_argument('pid')
    ap.add_argument('--tier', default=os.environ.get('VERIF_TIER') or 'quick', choices=['quick', 'thorough'])
    ap.add_argument('--seed', type=int, default=int(os.environ.get('VERIF_SEED') or 0))
    ap.add_argument('--jobs', type=int, default=int(os.environ.get('VERIF_JOBS') or os.cpu_count() or 4))
    a = ap.parse_args()
    from .runner import run_check
    sys.exit(run_check(a.pid.upper(), a.tier, a.seed, a.jobs))


if __name__ == '__main__':
    main()
