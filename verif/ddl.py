"""E3: an independent tokenising reader for the SQL DDL emitted by `.sql`.

Written against SQL's lexical rules (``--`` comments, ``"ident"``, ``'string'`` with ``''``,
parenthesis depth, ``;`` at depth 0), not against the renderer's templates.  Recognises exactly the
statement shapes the properties name; anything else raises DDLError ("no other statements appear").
"""
from __future__ import annotations


class DDLError(Exception):
    pass


class Tok:
    __slots__ = ('kind', 'text', 'start', 'end', 'line')

    def __init__(self, kind, text, start, end, line):
        self.kind, self.text, self.start, self.end, self.line = kind, text, start, end, line

    def __repr__(self):
        return f'{self.kind}:{self.text!r}'


def tokenize(src: str):
    toks = []
    i, n, line = 0, len(src), 0
    while i < n:
        ch = src[i]
        if ch == '\n':
            line += 1
            i += 1
        elif ch in ' \t\r':
            i += 1
        elif src.startswith('--', i):
            j = src.find('\n', i)
            if j < 0:
                j = n
            toks.append(Tok('comment', src[i + 2:j], i, j, line))
            i = j
        elif ch == '"':
            j = i + 1
            buf = []
            while True:
                if j >= n:
                    raise DDLError(f'unterminated quoted identifier at {i}')
                if src[j] == '"':
                    if j + 1 < n and src[j + 1] == '"':
                        buf.append('"')
                        j += 2
                        continue
                    break
                buf.append(src[j])
                j += 1
            toks.append(Tok('ident', ''.join(buf), i, j + 1, line))
            line += src.count('\n', i, j + 1)
            i = j + 1
        elif ch == "'":
            j = i + 1
            buf = []
            while True:
                if j >= n:
                    raise DDLError(f'unterminated string literal at {i}')
                if src[j] == "'":
                    if j + 1 < n and src[j + 1] == "'":
                        buf.append("'")
                        j += 2
                        continue
                    break
                buf.append(src[j])
                j += 1
            toks.append(Tok('string', ''.join(buf), i, j + 1, line))
            line += src.count('\n', i, j + 1)
            i = j + 1
        elif ch in '(),;.':
            toks.append(Tok('punct', ch, i, i + 1, line))
            i += 1
        else:
            j = i
            while j < n and src[j] not in ' \t\r\n(),;."\'' and not src.startswith('--', j):
                j += 1
            if j == i:
                j = i + 1
            toks.append(Tok('word', src[i:j], i, j, line))
            i = j
    return toks


def split_statements(toks):
    """Statements end with ';' at parenthesis depth 0.  Comments stay inside their statement."""
    out, cur, depth = [], [], 0
    for t in toks:
        cur.append(t)
        if t.kind == 'punct':
            if t.text == '(':
                depth += 1
            elif t.text == ')':
                depth -= 1
                if depth < 0:
                    raise DDLError(f'unbalanced ) at {t.start}')
            elif t.text == ';' and depth == 0:
                out.append(cur)
                cur = []
    if any(t.kind != 'comment' for t in cur):
        raise DDLError('trailing tokens without terminating ;: ' + ' '.join(t.text for t in cur[:8]))
    return out, [t.text for t in cur]


class _Cur:
    def __init__(self, toks, src):
        self.t, self.i, self.src = toks, 0, src

    def peek(self, k=0):
        j = self.i + k
        return self.t[j] if j < len(self.t) else None

    def eof(self):
        return self.i >= len(self.t)

    def next(self):
        if self.i >= len(self.t):
            raise DDLError('unexpected end of statement')
        t = self.t[self.i]
        self.i += 1
        return t

    def word(self, *alts):
        t = self.peek()
        if t is not None and t.kind == 'word' and t.text.upper() in alts:
            self.i += 1
            return t.text.upper()
        return None

    def words(self, *seq):
        for k, w in enumerate(seq):
            t = self.peek(k)
            if t is None or t.kind != 'word' or t.text.upper() != w:
                return False
        self.i += len(seq)
        return True

    def expect_words(self, *seq):
        if not self.words(*seq):
            raise DDLError(f'expected {" ".join(seq)} near {self.context()}')

    def punct(self, ch):
        t = self.peek()
        if t is not None and t.kind == 'punct' and t.text == ch:
            self.i += 1
            return True
        return False

    def expect_punct(self, ch):
        if not self.punct(ch):
            raise DDLError(f'expected {ch!r} near {self.context()}')

    def context(self):
        return ' '.join(t.text for t in self.t[max(0, self.i - 3):self.i + 4])

    def qname(self):
        parts = []
        t = self.peek()
        if t is None or t.kind != 'ident':
            raise DDLError(f'expected quoted identifier near {self.context()}')
        parts.append(self.next().text)
        while self.peek() is not None and self.peek().kind == 'punct' and self.peek().text == '.' \
                and self.peek(1) is not None and self.peek(1).kind == 'ident':
            self.i += 1
            parts.append(self.next().text)
        return parts

    def ident_list(self):
        self.expect_punct('(')
        names = []
        while True:
            t = self.next()
            if t.kind != 'ident':
                raise DDLError(f'expected quoted column name near {self.context()}')
            names.append(t.text)
            if self.punct(','):
                continue
            self.expect_punct(')')
            return names


ACTION_WORDS = {('NO', 'ACTION'), ('RESTRICT',), ('CASCADE',), ('SET', 'NULL'), ('SET', 'DEFAULT')}


def _fk_tail(c: _Cur):
    """FOREIGN KEY (cols) REFERENCES t (cols) [ON UPDATE a] [ON DELETE a]  (cursor after optional CONSTRAINT)."""
    c.expect_words('FOREIGN', 'KEY')
    cols = c.ident_list()
    c.expect_words('REFERENCES')
    rt = c.qname()
    rcols = c.ident_list()
    fk = {'cols': cols, 'ref_table': rt, 'ref_cols': rcols, 'on_update': None, 'on_delete': None}
    while c.word('ON'):
        which = c.word('UPDATE', 'DELETE')
        if which is None:
            raise DDLError(f'expected UPDATE/DELETE near {c.context()}')
        act = []
        while c.peek() is not None and c.peek().kind == 'word' and c.peek().text.upper() != 'ON':
            act.append(c.next().text.upper())
        if tuple(act) not in ACTION_WORDS:
            raise DDLError(f'unknown referential action {act}')
        keyname = 'on_update' if which == 'UPDATE' else 'on_delete'
        if fk[keyname] is not None:
            raise DDLError(f'duplicate ON {which}')
        fk[keyname] = ' '.join(act)
    return fk


def _split_entries(toks):
    """Split the token list of a parenthesised body at depth-0 commas."""
    out, cur, depth = [], [], 0
    for t in toks:
        if t.kind == 'punct' and t.text == '(':
            depth += 1
        elif t.kind == 'punct' and t.text == ')':
            depth -= 1
        if t.kind == 'punct' and t.text == ',' and depth == 0:
            out.append(cur)
            cur = []
        else:
            cur.append(t)
    out.append(cur)
    return out


COLUMN_FLAGS = ('PRIMARY', 'AUTOINCREMENT', 'UNIQUE', 'NOT', 'DEFAULT')


def _column_entry(toks, src):
    comments = [t.text for t in toks if t.kind == 'comment']
    toks = [t for t in toks if t.kind != 'comment']
    if not toks or toks[0].kind != 'ident':
        raise DDLError('column entry must start with a quoted name: ' + ' '.join(t.text for t in toks[:6]))
    name = toks[0].text
    # the type is everything up to the first flag keyword at depth 0
    depth, k = 0, 1
    while k < len(toks):
        t = toks[k]
        if t.kind == 'punct' and t.text == '(':
            depth += 1
        elif t.kind == 'punct' and t.text == ')':
            depth -= 1
        elif depth == 0 and t.kind == 'word' and t.text.upper() in COLUMN_FLAGS:
            break
        k += 1
    if k == 1:
        raise DDLError(f'column {name!r} has no type')
    type_text = src[toks[1].start:toks[k - 1].end]
    col = {'name': name, 'type': type_text, 'pk': False, 'autoinc': False, 'unique': False, 'not_null': False,
           'default': None, 'comments': comments}
    c = _Cur(toks[k:], src)
    while not c.eof():
        if c.words('PRIMARY', 'KEY'):
            flag = 'pk'
        elif c.word('AUTOINCREMENT'):
            flag = 'autoinc'
        elif c.word('UNIQUE'):
            flag = 'unique'
        elif c.words('NOT', 'NULL'):
            flag = 'not_null'
        elif c.word('DEFAULT'):
            if col['default'] is not None:
                raise DDLError(f'column {name!r}: DEFAULT stated twice')
            rest, depth = [], 0
            while not c.eof():
                t = c.peek()
                if t.kind == 'punct' and t.text == '(':
                    depth += 1
                elif t.kind == 'punct' and t.text == ')':
                    depth -= 1
                elif depth == 0 and t.kind == 'word' and t.text.upper() in ('PRIMARY', 'AUTOINCREMENT', 'UNIQUE', 'NOT'):
                    break
                rest.append(c.next())
            # an empty-string default is emitted as a bare DEFAULT keyword with nothing after it
            col['default'] = src[rest[0].start:rest[-1].end] if rest else ''
            continue
        else:
            raise DDLError(f'column {name!r}: unexpected {c.context()!r}')
        if col[flag]:
            raise DDLError(f'column {name!r}: {flag} stated twice')
        col[flag] = True
    return col


def _create_table(c: _Cur, src, comments):
    name = c.qname()
    c.expect_punct('(')
    # body = up to the matching ')', which must be the last token before ';'
    body = c.t[c.i:]
    if len(body) < 2 or not (body[-1].kind == 'punct' and body[-1].text == ';') \
            or not (body[-2].kind == 'punct' and body[-2].text == ')'):
        raise DDLError('CREATE TABLE must end with );')
    body = body[:-2]
    st = {'kind': 'table', 'name': name, 'columns': [], 'pks': [], 'fks': [], 'comments': comments}
    for entry in (_split_entries(body) if any(t.kind != 'comment' for t in body) else []):
        ec = [t.text for t in entry if t.kind == 'comment']
        e = [t for t in entry if t.kind != 'comment']
        if not e:
            raise DDLError(f'empty entry in CREATE TABLE {name}')
        first = e[0]
        if first.kind == 'word' and first.text.upper() == 'PRIMARY':
            cc = _Cur(e, src)
            cc.expect_words('PRIMARY', 'KEY')
            subs = _index_subjects(cc, src)
            if not cc.eof():
                raise DDLError('junk after PRIMARY KEY clause')
            st['pks'].append({'subjects': subs, 'cols': [x[1] for x in subs if x[0] == 'col'], 'comments': ec})
        elif first.kind == 'word' and first.text.upper() in ('CONSTRAINT', 'FOREIGN'):
            cc = _Cur(e, src)
            cname = None
            if cc.word('CONSTRAINT'):
                t = cc.next()
                if t.kind != 'ident':
                    raise DDLError('CONSTRAINT needs a quoted name')
                cname = t.text
            fk = _fk_tail(cc)
            if not cc.eof():
                raise DDLError(f'junk after FOREIGN KEY clause: {cc.context()}')
            fk['name'] = cname
            fk['comments'] = ec
            st['fks'].append(fk)
        else:
            st['columns'].append(_column_entry(entry, src))
    c.i = len(c.t)
    return st


def _index_subjects(c: _Cur, src):
    c.expect_punct('(')
    toks = c.t[c.i:]
    # up to matching ')'
    depth, k = 1, 0
    while k < len(toks):
        t = toks[k]
        if t.kind == 'punct' and t.text == '(':
            depth += 1
        elif t.kind == 'punct' and t.text == ')':
            depth -= 1
            if depth == 0:
                break
        k += 1
    if depth != 0:
        raise DDLError('unbalanced index subject list')
    inner = toks[:k]
    c.i += k + 1
    subs = []
    for e in _split_entries(inner):
        if not e:
            raise DDLError('empty index subject')
        if len(e) == 1 and e[0].kind == 'ident':
            subs.append(['col', e[0].text])
        elif e[0].kind == 'punct' and e[0].text == '(' and e[-1].kind == 'punct' and e[-1].text == ')':
            subs.append(['expr', src[e[0].end:e[-1].start]])
        else:
            subs.append(['raw', src[e[0].start:e[-1].end]])
    return subs


def parse_statement(toks, src, pos):
    comments = []
    k = 0
    while k < len(toks) and toks[k].kind == 'comment':
        comments.append(toks[k].text)
        k += 1
    inner_comments = [t.text for t in toks[k:] if t.kind == 'comment']
    c = _Cur([t for t in toks[k:]], src)
    if c.words('CREATE', 'TYPE'):
        name = c.qname()
        c.expect_words('AS', 'ENUM')
        c.expect_punct('(')
        items, item_comments, pending = [], [], []
        while True:
            t = c.next()
            if t.kind == 'comment':
                pending.append(t.text)
                continue
            if t.kind != 'string':
                raise DDLError(f'enum item must be a string literal near {c.context()}')
            items.append(t.text)
            item_comments.append(pending)
            pending = []
            while c.peek() is not None and c.peek().kind == 'comment':
                pending.append(c.next().text)
            if c.punct(','):
                continue
            c.expect_punct(')')
            break
        c.expect_punct(';')
        st = {'kind': 'type', 'name': name, 'items': items, 'item_comments': item_comments, 'comments': comments}
    elif c.words('CREATE', 'TABLE'):
        st = _create_table(c, src, comments)
    elif c.word('CREATE'):
        unique = bool(c.word('UNIQUE'))
        c.expect_words('INDEX')
        if inner_comments:
            raise DDLError('comment inside CREATE INDEX')
        iname = None
        if c.peek() is not None and c.peek().kind == 'ident':
            iname = c.next().text
        c.expect_words('ON')
        tname = c.qname()
        using = None
        if c.word('USING'):
            t = c.next()
            if t.kind != 'word':
                raise DDLError('USING needs a method name')
            using = t.text
        subs = _index_subjects(c, src)
        c.expect_punct(';')
        st = {'kind': 'index', 'unique': unique, 'name': iname, 'table': tname, 'using': using,
              'subjects': subs, 'comments': comments}
    elif c.words('COMMENT', 'ON'):
        ent = c.word('TABLE', 'COLUMN')
        if ent is None:
            raise DDLError(f'COMMENT ON what? {c.context()}')
        target = c.qname()
        c.expect_words('IS')
        t = c.next()
        if t.kind != 'string':
            raise DDLError('COMMENT ON ... IS needs one string literal')
        c.expect_punct(';')
        st = {'kind': 'comment_on', 'entity': ent, 'target': target, 'text': t.text, 'comments': comments}
    elif c.words('ALTER', 'TABLE'):
        if inner_comments:
            raise DDLError('comment inside ALTER TABLE')
        tname = c.qname()
        c.expect_words('ADD')
        cname = None
        if c.word('CONSTRAINT'):
            t = c.next()
            if t.kind != 'ident':
                raise DDLError('CONSTRAINT needs a quoted name')
            cname = t.text
        fk = _fk_tail(c)
        fk['name'] = cname
        c.expect_punct(';')
        st = {'kind': 'alter_fk', 'table': tname, 'fk': fk, 'comments': comments}
    else:
        raise DDLError('unrecognised statement: ' + ' '.join(t.text for t in toks[:8]))
    if not c.eof():
        raise DDLError(f'junk after statement: {c.context()}')
    st['pos'] = pos
    return st


def read(src: str):
    """-> list of statement records in script order.  Raises DDLError on anything unrecognised."""
    toks = tokenize(src)
    stmts, trailing_comments = split_statements(toks)
    return [parse_statement(s, src, i) for i, s in enumerate(stmts)]
