"""Known-finding matchers.  Each takes (violation, params) and returns True only when BOTH the input
and the shape of the observed discrepancy are the ones of the recorded root cause."""
from __future__ import annotations


def c18_count_heuristic(v, params):
    """Recorded defect: tables are ordered by the number of inline keys they hold, descending and
    keyed by bare table name, '-' not counted (pinned by test_reorder_tables / integration1.sql).
    Matches only if the observed CREATE TABLE order is exactly the order that heuristic yields."""
    if v['kind'] != 'target-after-holder':
        return False
    from .props import c18
    case = v['case']
    m = c18.make_model(case['n'], [tuple(x) for x in case['edges']], case['kinds'], case['extra'], case['variant'])
    counts = {}
    for r in m['refs']:
        if not r['inline'] or r['type'] == '<>':
            continue
        if r['type'] == '>':
            nm = r['col1'][0][1]
        elif r['type'] == '<':
            nm = r['col2'][0][1]
        else:
            continue
        counts[nm] = counts.get(nm, 0) + 1
    declared = [[t['schema'], t['name']] for t in m['tables']]
    predicted = sorted(declared, key=lambda t: -counts.get(t[1], 0))
    return predicted == case.get('observed_order')


def c01_dotted_name(v, params):
    """Recorded defect: names containing '.' are flattened to 'schema.name' strings and split again on
    '.', so a dotted table/schema name cannot be listed in a TableGroup and a dotted enum name/schema
    cannot be used as a column type."""
    c = v['case']
    if c.get('mode') != 'ident' or '.' not in c.get('name', ''):
        return False
    text = v['detail'] + ' ' + ' '.join(map(str, v.get('observed') or []))
    if c['pos'] in ('table', 'schema'):
        return 'TableNotFoundError' in text
    if c['pos'] in ('enum', 'enum_schema'):
        return 'ValueError' in text or '.type' in text
    return False


def c01_comma_column(v, params):
    """Recorded defect: a standalone Ref flattens its column list to text and splits it on ',', so a
    (quoted) column name containing a comma cannot be referenced."""
    c = v['case']
    if c.get('mode') != 'ident' or ',' not in c.get('name', '') or c['pos'] not in ('column', 'ref_target_col'):
        return False
    text = v['detail'] + ' ' + ' '.join(map(str, v.get('observed') or []))
    return 'ColumnNotFoundError' in text
