"""Known-finding matchers.  Each takes (violation, params) and returns True only when BOTH the input
and the shape of the observed discrepancy are the ones of the recorded root cause."""
from __future__ import annotations


def c18_count_heuristic(v, params):
    """Recorded defect: tables are ordered by the number of inline keys they hold, descending and
    keyed by bare table name, '-' not counted (pinned by test_reorder_tables / integration1.sql).
    Matches only if the observed CREATE TABLE order is exactly the order that heuristic yields."""
    if v['kind'] != 'target-after-holder':
        return False
    from .props import c18
    case = v['case']
    m = c18.make_model(case['n'], [tuple(x) for x in case['edges']], case['kinds'], case['extra'], case['variant'])
    counts = {}
    for r in m['refs']:
        if not r['inline'] or r['type'] == '<>':
            continue
        if r['type'] == '>':
            nm = r['col1'][0][1]
        elif r['type'] == '<':
            nm = r['col2'][0][1]
        else:
            continue
        counts[nm] = counts.get(nm, 0) + 1
    declared = [[t['schema'], t['name']] for t in m['tables']]
    predicted = sorted(declared, key=lambda t: -counts.get(t[1], 0))
    return predicted == case.get('observed_order')     # (clause placement is checked before this kind can be reported)


def c01_dotted_name(v, params):
    """Recorded defect: names containing '.' are flattened to 'schema.name' strings and split again on
    '.', so a dotted table/schema name cannot be listed in a TableGroup and a dotted enum name/schema
    cannot be used as a column type."""
    c = v['case']
    if c.get('mode') != 'ident' or '.' not in c.get('name', ''):
        return False
    text = v['detail'] + ' ' + ' '.join(map(str, v.get('observed') or []))
    if c['pos'] in ('table', 'schema'):
        return 'TableNotFoundError' in text
    if c['pos'] in ('enum', 'enum_schema'):
        return 'ValueError' in text or '.type' in text
    return False


def c01_comma_column(v, params):
    """Recorded defect: a standalone Ref flattens its column list to text and splits it on ',', so a
    (quoted) column name containing a comma cannot be referenced."""
    c = v['case']
    if c.get('mode') != 'ident' or ',' not in c.get('name', '') or c['pos'] not in ('column', 'ref_target_col'):
        return False
    text = v['detail'] + ' ' + ' '.join(map(str, v.get('observed') or []))
    return 'ColumnNotFoundError' in text


# ---- C02 ---------------------------------------------------------------------------------------

def _items(v):
    o = v.get('observed')
    return o if isinstance(o, list) and o and isinstance(o[0], list) else None


def c02_falsy_default(v, params):
    """Recorded defect: the DBML renderer tests `if model.default:` so 0, 0.0, false and '' are not
    written (pinned by test_data/integration1.dbml).  Every difference must be exactly 'default lost'."""
    it = _items(v)
    if v['kind'] != 'content-changed' or not it:
        return False
    for path, got, exp in it:
        if not path.endswith('.default'):
            return False
        if got != ['none'] or not (isinstance(exp, list) and len(exp) == 2 and exp[0] in ('int', 'float', 'bool', 'str')
                                   and exp[1] in (0, 0.0, False, '')):
            return False
    return True


def c02_keyword_string_default(v, params):
    """Recorded defect: a *string* default spelled null/true/false (any case) is written bare and comes back
    as NULL / a boolean (pinned by test_default_to_str)."""
    it = _items(v)
    if v['kind'] != 'content-changed' or not it:
        return False
    # diff_items reports scalar lists as a whole: path .default, got e.g. ['bool', True] / ['str', 'NULL']
    for path, got, exp in it:
        if not path.endswith('.default') or not (isinstance(exp, list) and exp[0] == 'str' and isinstance(exp[1], str)):
            return False
        low = exp[1].lower()
        if low == 'null' and got == ['str', 'NULL']:
            continue
        if low == 'true' and got == ['bool', True]:
            continue
        if low == 'false' and got == ['bool', False]:
            continue
        return False
    return True


def _reindented(got, exp):
    if not isinstance(got, str) or not isinstance(exp, str) or '\n' not in exp:
        return False
    g = got.split('\n')
    if g and g[0].strip() == '' and len(g) == len(exp.split('\n')) + 1:
        g = g[1:]
    e = exp.split('\n')
    if len(g) != len(e):
        return False
    # every line equal up to added leading blanks (multiples of the 4-space block indentation)
    for gl, el in zip(g, e):
        if gl == el:
            continue
        if gl.lstrip(' ') != el.lstrip(' ') or len(gl) < len(el) or (len(gl) - len(el)) % 4:
            return False
    return True


def c02_multiline_settings_text(v, params):
    """Recorded defect: multi-line text written in settings position (column / index / enum-item notes,
    property values, project items) is indented together with the enclosing block and keeps that
    indentation when parsed back (note_option_to_dbml output pinned by test_tools.py)."""
    it = _items(v)
    if v['kind'] != 'content-changed' or not it:
        return False
    for path, got, exp in it:
        if path.endswith('.note') and ('.columns[' in path or '.indexes[' in path or '.items[' in path):
            if not _reindented(got, exp):
                return False
        elif '.properties' in path or path.endswith('.properties'):
            # whole list reported: [[k, v], ...]
            if not (isinstance(got, list) and isinstance(exp, list) and len(got) == len(exp)):
                return False
            if got and isinstance(got[0], str):     # a single [key, value] pair
                got, exp = [got], [exp]
            for g, e in zip(got, exp):
                if g == e:
                    continue
                if g[0] != e[0] or not _reindented(g[1], e[1]):
                    return False
        else:
            return False
    return True


def c02_dotted_or_comma_name(v, params):
    """Same root causes as C01-dotted-name / C01-comma-column, seen through the round trip."""
    c = v['case']
    if c.get('mode') != 'ident':
        return False
    name, pos = c.get('name', ''), c.get('pos')
    text = v['detail']
    if '.' in name and pos in ('table', 'schema'):
        return 'TableNotFoundError' in text
    if '.' in name and pos in ('enum', 'enum_schema'):
        return 'ValueError' in text or '.type' in text
    if ',' in name and pos in ('column', 'ref_target_col'):
        return 'ColumnNotFoundError' in text
    return False


def c05_dotted_enum(v, params):
    """Same root cause as C01-dotted-name: an enum whose name/schema contains '.' is not resolved as a column type."""
    c = v['case']
    if c.get('mode') != 'ident' or '.' not in c.get('name', '') or c.get('pos') not in ('enum', 'enum_schema'):
        return False
    obs = v.get('observed') or []
    return bool(obs) and all('type is not the declared Enum object' in o for o in obs)


# ---- C04 ---------------------------------------------------------------------------------------

def c04_join_column_collision(v, params):
    """Recorded defect: Reference.join_table names its columns <table name>_<column name>; when the two sides are
    tables with the same bare name (a self many-to-many, or same-named tables in two schemas) and referenced column
    names coincide, the join table gets duplicate column names.  Matches only if every reported problem is such a
    collision and each is explained by a <> reference of the case whose computed column names really collide."""
    if v['kind'] != 'join-columns-collide':
        return False
    from .props import c04
    obs = v.get('observed') or []
    colliding = 0
    for spec in v['case']['refs']:
        r = c04.mkref(*spec)
        if r['type'] != '<>':
            continue
        names = [f'{t}_{c}' for _, t, c in r['col1'] + r['col2']]
        if len(set(names)) != len(names):
            colliding += 1
    return colliding > 0 and len(obs) == colliding and all('COLLIDE' in o for o in obs)


# ---- C13 ---------------------------------------------------------------------------------------

C13_SETTINGS_SITES = ('column.note', 'index.note', 'item.note', 'project.field', 'table.prop', 'column.prop', 'column.default', 'index.name',
                      'expr.default', 'expr.subject')


def c13_multiline_settings_text(v, params):
    """Recorded defect (same root cause as C02-multiline-settings-text): multi-line text written inside a settings list, a project
    field, a property value or an expression is indented together with the enclosing block on output and keeps that indentation;
    property values also gain the leading line break of the triple-quote form.  Matches only a single isolated settings-position
    site whose text came back equal up to such added indentation."""
    c = v['case']
    if v['kind'] != 'text-changed-by-round-trip' or len(c.get('sites', [])) != 1 or c['sites'][0] not in C13_SETTINGS_SITES:
        return False
    if '\n' not in c['text']:
        return False
    got, exp = v.get('observed'), v.get('expected')
    if _reindented(got, exp):
        return True
    if c['sites'][0].endswith('.note') and isinstance(exp, str):
        # at a note site the re-indented text is normalised again when parsed: got == normalise(first line + indented rest)
        from .props.c13 import normalise_ref
        lines = exp.split('\n')
        for k in (4, 8, 12, 16):
            cand = '\n'.join([lines[0]] + [(' ' * k + l) if l.strip() else l for l in lines[1:]])
            if normalise_ref(cand) == got:
                return True
    return False


def c13_triple_quote(v, params):
    """Recorded defect: prepare_text_for_dbml escapes only the first of three consecutive single quotes (pinned by
    test_prepare_text_for_dbml), so a text containing three single quotes in a row ends its literal early."""
    c = v['case']
    return v['kind'] == 'rendered-text-unparsable' and ("'" * 3) in c['text'] and len(c.get('sites', [])) == 1


def c13_sql_multiline_expression(v, params):
    """Recorded defect: the CREATE TABLE body is indented as a whole, so the continuation lines of a multi-line expression default
    gain two blanks; matches only if that is the only difference."""
    c = v['case']
    if v['kind'] != 'sql-expression-not-verbatim' or '\n' not in c['text']:
        return False
    sql = v.get('observed') or ''
    t = c['text']
    import textwrap
    cand = textwrap.indent('X DEFAULT (' + t + ')', '  ').split('X ', 1)[1]      # blank-only lines are left alone
    return cand in sql and f'(({t}), "c")' in sql


def c13_blank_line_whitespace(v, params):
    """Recorded defect: a Note block is indented with textwrap.indent, which leaves whitespace-only lines alone, and the parser then
    removes the block's indentation from every line: blanks on an otherwise blank interior line of a multi-line note are lost
    (up to the depth of the block).  Matches only a block-note site whose text came back equal except for such lines."""
    c = v['case']
    if v['kind'] != 'text-changed-by-round-trip' or len(c.get('sites', [])) != 1:
        return False
    if c['sites'][0] not in ('table.note', 'group.note', 'project.note', 'sticky.text'):
        return False
    got, exp = v.get('observed'), v.get('expected')
    if not isinstance(got, str) or not isinstance(exp, str) or '\n' not in exp:
        return False
    lines = exp.split('\n')
    if not any(l and not l.strip() for l in lines[1:-1]):
        return False
    for k in (4, 8, 12):
        if '\n'.join(l[k:] if (l and not l.strip()) else l for l in lines) == got:
            return True
    return False


# ---- C03 ---------------------------------------------------------------------------------------

def c03_double_quote_in_identifier(v, params):
    """Recorded defect: the SQL renderer writes identifiers as "<name>" without doubling an embedded double quote, so a name
    that contains one (only possible for a database built through the classes; DBML cannot express it) breaks the script.
    Matches only the dedicated API-names family, where exactly one identifier contains a double quote."""
    c = v['case']
    return c.get('mode') == 'apinames' and '"' in c.get('name', '') and v['kind'] in ('unreadable-sql', 'sql-differs', 'sql-differs-after-edit')
