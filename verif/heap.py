"""E6: shared-state snapshot, per-parse census and cold reset (harness-side instrumentation inside the checking process).

``shared_elements()``  every pyparsing.ParserElement reachable from the module globals of pydbml.* (the grammar objects all
                       parses share)
``snapshot()``         canonical digest of that shared state: every shared element's __dict__ (scalars by value, lists by the
                       identity index of their members, callables by qualified name, bound methods additionally by the type of
                       their __self__), class attributes of every pydbml class, non-callable module globals of pydbml.*, and
                       pyparsing's global switches.  Lazily regenerated display-name caches are excluded (listed in EXCLUDED).
``census()``           after gc.collect(): number of live instances of every class defined in pydbml.*, plus live ParserElements
``cold_copy()/cold_reset()``  copy of every shared element's __dict__ taken before the first parse / restore it, which gives the
                       first-use state again without a new process
"""
from __future__ import annotations

import gc
import hashlib
import sys
import types

# Not part of the snapshot: display-name caches (feed error-message text only) and the lazily compiled pattern of a Regex
# element (`re`, `_re`, `re_match`, `_may_return_empty` are computed on first use from the element's own, unchanged
# pattern text — which documents happen to reach a Regex element first decides *when* they appear, never their value).
EXCLUDED = ('_defaultName', 'errmsg', 'customName', '_cached_name', 're', '_re', 're_match', '_may_return_empty')


def _pydbml_modules():
    return {n: m for n, m in sys.modules.items() if (n == 'pydbml' or n.startswith('pydbml.')) and m is not None}


_shared = None


def shared_elements(refresh=False):
    """list of shared ParserElement objects in a deterministic discovery order"""
    global _shared
    if _shared is not None and not refresh:
        return _shared
    import pyparsing as pp
    seen, order = set(), []

    def walk(o):
        if isinstance(o, pp.ParserElement):
            if id(o) in seen:
                return
            seen.add(id(o))
            order.append(o)
            for v in vars(o).values():
                walk(v)
        elif isinstance(o, (list, tuple)):
            for x in o:
                walk(x)
    for n in sorted(_pydbml_modules()):
        m = sys.modules[n]
        for k in sorted(vars(m)):
            walk(vars(m)[k])
    _shared = order
    return order


def _canon_value(v, index, depth=0):
    import pyparsing as pp
    if isinstance(v, pp.ParserElement):
        return ('el', index.get(id(v), 'foreign:' + type(v).__name__))
    if isinstance(v, (str, int, float, bool, type(None), bytes)):
        return v
    if isinstance(v, (list, tuple)) and depth < 4:
        return (type(v).__name__, tuple(_canon_value(x, index, depth + 1) for x in v))
    if isinstance(v, (set, frozenset)) and depth < 4:
        return ('set', tuple(sorted(repr(_canon_value(x, index, depth + 1)) for x in v)))
    if isinstance(v, dict) and depth < 4:
        return ('dict', tuple(sorted((repr(k), repr(_canon_value(x, index, depth + 1))) for k, x in v.items())))
    if isinstance(v, types.MethodType):
        return ('boundmethod', getattr(v.__func__, '__qualname__', '?'), type(v.__self__).__module__ + '.' + type(v.__self__).__name__)
    if callable(v):
        # pyparsing wraps parse actions (_trim_arity): look through the closure for a bound method of a pydbml object
        inner = []
        clo = getattr(v, '__closure__', None) or ()
        for cell in clo:
            try:
                c = cell.cell_contents
            except ValueError:
                continue
            if isinstance(c, types.MethodType):
                inner.append(('boundmethod', getattr(c.__func__, '__qualname__', '?'), type(c.__self__).__module__ + '.' + type(c.__self__).__name__))
            elif callable(c):
                inner.append(('fn', getattr(c, '__qualname__', type(c).__name__)))
        return ('callable', getattr(v, '__qualname__', type(v).__name__), tuple(inner))
    if isinstance(v, type):
        return ('class', v.__module__ + '.' + v.__name__)
    return ('obj', type(v).__module__ + '.' + type(v).__name__)


def snapshot_parts():
    """-> dict label -> canonical value (for diffing); snapshot() hashes it"""
    import pyparsing as pp
    els = shared_elements()
    index = {id(e): i for i, e in enumerate(els)}
    parts = {}
    for i, e in enumerate(els):
        d = {}
        for k, v in vars(e).items():
            if k in EXCLUDED:
                continue
            d[k] = _canon_value(v, index)
        parts[f'el{i}:{type(e).__name__}'] = tuple(sorted((k, repr(v)) for k, v in d.items()))
    for n, m in sorted(_pydbml_modules().items()):
        for k, v in sorted(vars(m).items()):
            if k.startswith('__'):
                continue
            if isinstance(v, type) and v.__module__.startswith('pydbml'):
                for ak, av in sorted(vars(v).items()):
                    if ak.startswith('__') or isinstance(av, (types.FunctionType, property, classmethod, staticmethod)):
                        continue
                    parts[f'class {v.__module__}.{v.__name__}.{ak}'] = repr(_canon_value(av, index))
            elif not callable(v) and not isinstance(v, (types.ModuleType, pp.ParserElement)):
                parts[f'global {n}.{k}'] = repr(_canon_value(v, index))
    parts['pyparsing.DEFAULT_WHITE_CHARS'] = pp.ParserElement.DEFAULT_WHITE_CHARS
    parts['pyparsing.packrat'] = repr(getattr(pp.ParserElement, '_packratEnabled', None))
    parts['pyparsing.left_recursion'] = repr(getattr(pp.ParserElement, '_left_recursion_enabled', None))
    return parts


def snapshot():
    parts = snapshot_parts()
    h = hashlib.sha1()
    for k in sorted(parts):
        h.update(k.encode())
        h.update(repr(parts[k]).encode())
    return h.hexdigest()[:16]


def diff_parts(a, b, limit=5):
    out = []
    for k in sorted(set(a) | set(b)):
        if a.get(k) != b.get(k):
            out.append(f'{k}: {str(a.get(k))[:120]} -> {str(b.get(k))[:120]}')
            if len(out) >= limit:
                break
    return out


def census():
    """live instances per pydbml class + live ParserElements, after a full collection"""
    import pyparsing as pp
    gc.collect()
    gc.collect()
    counts = {}
    n_el = 0
    for o in gc.get_objects():
        t = type(o)
        mod = getattr(t, '__module__', '') or ''
        if mod.startswith('pydbml'):
            key = mod + '.' + t.__name__
            counts[key] = counts.get(key, 0) + 1
        elif isinstance(o, pp.ParserElement):
            n_el += 1
    counts['<ParserElement>'] = n_el
    return counts


_cold = None


def cold_copy():
    """call before the first parse of the process"""
    global _cold
    els = shared_elements(refresh=True)
    _cold = []
    for e in els:
        d = {}
        for k, v in vars(e).items():
            d[k] = list(v) if isinstance(v, list) else (dict(v) if isinstance(v, dict) else v)
        _cold.append((e, d))
    return len(_cold)


def cold_reset():
    if _cold is None:
        raise RuntimeError('cold_copy() was not taken before the first parse')
    for e, d in _cold:
        cur = vars(e)
        cur.clear()
        for k, v in d.items():
            cur[k] = list(v) if isinstance(v, list) else (dict(v) if isinstance(v, dict) else v)
