"""Regenerates /verif/MANIFEST.json from the table below:  /venv/bin/python -m verif.manifest_gen"""
import json
import os

VERIF = os.path.dirname(os.path.dirname(os.path.abspath(__file__)))
PY = '/venv/bin/python'

CHECKS = {
    'C01': dict(
        level='model_checking', technique='explicit-state BFS over declaration sequences + exhaustive element products x pairwise-complete style sets, expected model known by construction',
        text='Every abstract element of the per-kind feature products is written by an independent DBML writer under every style of a pairwise-complete '
             'style set and parsed by the real parser; the derivation BFS enumerates every sequence of top-level declarations up to the depth bound '
             '(every textual order) with the parser as transition function and canon(parse(text)) == model as the invariant in every well-formed state.',
        note='Trusts verif/writer.py to emit DBML by the language rules and verif/canon.py to read public attributes. Alias keyword `as` and `ref:` only lower-case; '
             'bare reserved words only where the frozen BARE_EXCLUDED table admits them. Two recorded findings (dotted names, comma in column name).',
        design='DESIGN.md §3 C01'),
    'C02': dict(
        level='exploration', technique='exhaustive enumeration of the C01 model spaces through API-built and parsed routes, three render/parse cycles, differential oracle',
        text='Every element of the C01 products, every identifier shape at every name position and every well-formed BFS state is taken through '
             'render -> parse -> render -> parse -> render; content equality, byte-identical fixpoint and absence of drift are decided for each.',
        note='Comments stripped (C14). Relative order of inline vs standalone refs is not compared (DBML cannot express it). Four recorded findings '
             '(falsy defaults, keyword-like string defaults, multi-line text in settings position, dotted/comma names) matched by narrow shape predicates.',
        design='DESIGN.md §3 C02'),
    'C03': dict(
        level='exploration', technique='exhaustive feature-product enumeration of API-built and parsed databases, SQL read back by an independent DDL reader and compared fact by fact with a reference computed from the abstract model',
        text='The full product of column flags x default values x type kinds x notes, every pk layout x position x schema x table note, the index feature product and enum shapes '
             'are each built (public classes and parser), rendered with .sql, read back by verif/ddl.py and compared with the facts the statement prescribes; any unrecognised statement is a violation. '
             'Each API-built database is also rendered, edited in place (pk layout, column name, schema) and rendered again; every second one is built with shared Note objects; enum items with quotes and API-only names with a double quote are included.',
        note='Trusts verif/ddl.py (lexical SQL reader) and verif/sqlref.py (the statement turned into facts). String defaults restricted to tokens the reader can delimit; boolean spelling case-insensitive.',
        design='DESIGN.md §3 C03'),
    'C04': dict(
        level='exploration', technique='exhaustive enumeration of reference sets (size 1 full product, size 2 all ordered pairs, size 3 core) over a 3-table universe; multiset equality of FOREIGN KEY facts read back from SQL',
        text='Every single reference over kind x inline x arity x 9 table pairs x name x 36 action pairs, every ordered pair over the reduced product and (thorough) every triple over a core set is built, rendered and '
             'read back; the multiset of FOREIGN KEY facts (placement, key table, key columns in order, referenced table and columns, constraint name, actions) must equal the one computed from the references, '
             'and each many-to-many reference must have its structurally correct join table with two foreign keys back. The universe has two tables with one bare name in different schemas; single references are also checked after a render / re-type / move-schema / render history.',
        note='Trusts verif/ddl.py and verif/sqlref.py. Join-table column names are not prescribed by the statement and not compared.',
        design='DESIGN.md §3 C04'),
    'C05': dict(
        level='model_checking', technique='identity/back-pointer invariant evaluated in every state of the C01 derivation BFS and element products (explicit enumeration, real parser)',
        text='The link invariant (endpoint identity, lookup equivalence by index/full name/alias, owner back-pointers of columns, indexes and all notes, '
             'enum-typed columns holding the Enum object, groups holding Table objects, get_refs exactness, unique key holder) is evaluated with `is` in every '
             'well-formed state of the derivation BFS under three table-addressing styles and on the reference/column/index/table/misc products.',
        note='Objects are located positionally from the abstract model the document was written from. The key-holder clause is read through '
             'get_references_for_sql (the anchored mechanism). One recorded finding (dotted enum names).',
        design='DESIGN.md §3 C05'),
    'C06': dict(
        level='fault_enumeration', technique='every rule x every spelling of the offending declaration x every position among the top-level elements x 3 base orders; duplicate references over form pair x addressing pair x kind x layout',
        text='A well-formed base document (aliases, a bare name shared by two schemas, enums, a named reference, a group) receives exactly one rule-breaking declaration per document: duplicate table / alias / alias-equals-key / enum / group, '
             'a table listed twice in a group under every pair of spellings, a column-less table, dangling tables and columns in references (inline, short, block), indexes and groups, incl. existing bare names in absent schemas and aliases behind absent schemas; '
             'every position and three element orders. Duplicate references are two identical copies in every pair of forms and addressings (settings in either order and letter case). The prescribed exception class is required and the control document must parse.',
        note='Documents are written from templates in verif/props/c06.py (no pydbml involved). Copies of a duplicated reference carry no comments.',
        design='DESIGN.md §3 C06'),
    'C07': dict(
        level='fault_enumeration', technique='every fault kind at every site of the token stream of harness-written seed documents (faults invalid by construction), parsed by the real parser',
        text='For seven seed documents (three models, one of them with properties and parsed with allow_properties on) every token boundary receives each stray token, every closer and closing quote is deleted, every closer / opener doubled, every settings list and body written twice in a row, every header name and alias clause written twice, every column loses its type, every settings list '
             'receives an unknown word / key:value at every position (and is emptied / given a trailing comma), every index type, reference operator, action and colour is replaced by each invalid value, and the document is cut at every boundary '
             'that leaves a construct open; every line start receives a comment ending in a backslash, quote, brace ... followed by a non-DBML line, and every element keyword is glued to the following name; files with non-UTF-8 bytes at token boundaries are given by path on the three routes where the library opens the file. Every mutated document must raise a parse error (or a library / column-less error); a returned Database or any other exception class is a violation.',
        note='Seeds contain no comments and no quote characters inside strings, so the faults cannot be swallowed. The token structure comes from verif/writer.py, not from pydbml.',
        design='DESIGN.md §3 C07'),
    'C08': dict(
        level='exploration', technique='exhaustive token soups (all sequences up to length 3), every single-token mutation of seed documents, every short raw string at every site of a template, named shapes; outcome classification under a watchdog; total rendering of accepted inputs',
        text='Every sequence of up to three tokens over the DBML token alphabet, every delete / duplicate / swap / replace-by-each-token mutation at every token of the seed documents, every string up to length 2 (quick) / 3 (thorough) over 18 punctuation-heavy '
             'characters inserted unescaped at 44 sites (names, types, notes, comments, defaults, expressions, properties, colours, top level) and 55 named shapes (incl. number literals beyond the integer conversion limit of the interpreter) are parsed; the outcome must be a Database, a parse error, a library error or SyntaxError, within 20 s; '
             'for every accepted input .dbml and .sql of the database and of every element must evaluate.',
        note='Bounded alphabets and lengths: the clause "any input text whatsoever" is decided for these spaces only. Parenthesis nesting <= 6.',
        design='DESIGN.md §3 C08'),
    'C09': dict(
        level='model_checking', technique='explicit-state BFS over operation histories on real Database/Table objects, reference model in lock-step, dedup by implementation-state hash',
        text='Three colliding universes (tables with twins / name, alias and alias-equals-key clashes / renames + references; enums, groups, sticky notes, projects, unsupported type; one table with '
             'columns and indexes addressed by object, twin, position and bad position) are explored breadth-first to the depth bound; after every operation the outcome class and every observer '
             '(iteration, positional and name lookup for current and stale names, kind lists, back-pointers of every universe object) must agree with the model, and a rejected operation must leave the '
             'implementation state hash unchanged.',
        note='The reference model (verif/props/c09.py Model/TModel) is the statement turned into lists and a name set. Deleting via an equal twin may be rejected or remove the equal object (model follows the implementation); sticky notes compare by identity, and adding the very same note object twice may be refused or list it twice (the invariants decide afterwards). '
             'Renames producing two contained tables with one name are outside the space.',
        design='DESIGN.md §3 C09'),
    'C10': dict(
        level='model_checking', technique='explicit-state exploration of edit histories on live objects (depth 2 all, depth 3 over the cache-sensitive edits), lock-step abstract model, differential oracle against a fresh build, element by element',
        text='Every edit history up to the bound over a 65-edit alphabet (renames, type changes, flags, defaults, notes, aliases, reference kind/inline/name/actions, add column/index/item, delete index) '
             'is executed on an API-built and on a parsed database, with renderings evaluated between the edits (so caches are warm) and without; after the history every rendering of the database and '
             'of each element must equal that of a database freshly built from the final content.',
        note='The abstract model is edited by mirror functions; histories whose final content cannot be built (two tables with one full name) are skipped and counted. Histories are never merged by content.',
        design='DESIGN.md §3 C10'),
    'C11': dict(
        level='model_checking', technique='explicit-state exploration of call histories over the shared grammar state (warm and cold start, snapshot state graph, census), result-pair reachability + mutation oracle, stateless preemption-bounded schedule exploration with a controlled thread scheduler, fresh-process cross-check',
        text='Every history of up to 2 calls over 39 calls (13 documents x 3 option sets) and up to 3 (quick) / 4 (thorough) over a reduced alphabet is executed from the warm and from the cold shared state; every outcome must equal the isolated outcome, earlier results must stay intact, '
             'and the census of live pydbml objects must return to the baseline. Every ordered pair of results must share no mutable object and survive exhaustive mutation of the other. Pairs of calls run in two threads under every schedule with at most one preemption at any pydbml '
             'line event (warm, and cold-start for some pairs) and must give their isolated outcomes; cold-start pairs are also preempted at the writes to shared grammar elements (every 8th write of three pairs in the quick tier, every write in the thorough tier); process-wide interpreter settings (recursion limit, switch interval, integer conversion limit, the global switches of pyparsing) must be unchanged after every call; the thorough tier adds every two-preemption schedule at call granularity and three-thread schedules. Every call is repeated in a fresh interpreter; a free-running multi-thread pass is supplementary.',
        note='Scheduling points are line events in <repo>/pydbml frames; pyparsing frames run untraced between them. The shared-state snapshot (verif/heap.py) excludes display-name caches and is reported as evidence; the verdict is outcome equality, object sharing and the census.',
        design='DESIGN.md §3 C11'),
    'C12': dict(
        level='exploration', technique='exhaustive configuration product (9 routes x BOM x 5 option sets x document set), differential oracle against the string route',
        text='Every combination of source route, byte-order mark, option set and document (ASCII, non-ASCII, with properties, empty, comment-only, CRLF, six invalid ones) is executed; content, .sql, .dbml, '
             'configured renderer classes and the allow_properties flag must equal those of PyDBML(str) with the same options, invalid documents must raise the same exception class on every route, '
             'a leading BOM must not change anything, and twelve unsupported source types must raise TypeError.',
        note='Files are written as UTF-8 by the harness into a temporary directory created and removed by the check. parse_file takes no options and is compared under the default option set only.',
        design='DESIGN.md §3 C12'),
    'C13': dict(
        level='exploration', technique='exhaustive enumeration of all strings up to the length bound over a critical alphabet (plus all 2-character strings over an extended one) at every text-bearing site; independent reference normaliser; three string styles; DDL reader for SQL',
        text='Every string over {a, space, newline, single and double quote, backslash, backtick} up to length 3 (quick) / 5 (thorough) and every string of length <= 2 over 21 characters is placed at 15 sites of one document with sentinels; '
             'parse side: stored text equals the reference normalisation (notes) or the text itself, all string styles agree, re-parsing the stored text is idempotent, sentinels untouched; render side: API-built and parsed databases '
             'round-trip the text through .dbml; SQL side: one COMMENT ON literal per note with quotes neutralised, expressions verbatim inside parentheses. Failures are isolated to a single site before they are reported.',
        note='Tab is excluded (not printable; pyparsing expands it). Texts without a non-blank line are checked for agreement and idempotence only. Three recorded findings (multi-line text in settings position, three consecutive single quotes, multi-line expression in CREATE TABLE) matched by shape predicates.',
        design='DESIGN.md §3 C13'),
    'C14': dict(
        level='exploration', technique='metamorphic enumeration: every slot of the writer token stream x every admissible comment form x every content on three base documents; above+trailing pairs; DDL reader on the SQL output',
        text='A comment of each of 18 contents (quotes, braces, brackets, DBML and SQL look-alikes, multi-line blocks) is injected at every admissible slot of three differently styled / ordered base documents; the parsed content without comments must equal '
             'the base, the comment must be stored on the element the statement names for that position and nowhere else (trailing wins over above), .dbml must re-parse to the same comments and carry each comment line as a // line, and .sql must read back to the '
             'statements of the comment-free database with each comment line as a -- line.',
        note='Admissible positions are a frozen table in verif/props/c14.py. Comment text is compared modulo blanks at line ends. Positions the statement does not name may attach the comment to the adjacent element or drop it.',
        design='DESIGN.md §3 C14'),
    'C15': dict(
        level='model_checking', technique='two-configuration traversal of the C01 derivation BFS (option on / off), exhaustive property placement product x 5 styles, all flag-flip sequences up to length 3',
        text='Every property-free BFS state and a pack of every C01 product is parsed under both option values and must differ in the flag only; every combination of 0-2 table-body properties at every position and 0-2 column properties '
             'among 0-2 ordinary settings, with bare / quoted / keyword-prefixed / keyword-spelled / non-ASCII keys and plain / quoted / padded / empty / multi-line values, written in five styles incl. both multi-line layouts, must be stored exactly and in order with the option on, '
             'round-trip through .dbml (single-line values), and be a syntax error with the option off; every sequence of up to three flag assignments from both initial values on parsed and API-built databases must switch rendering accordingly; the option is passed through every source route that takes it (str, Path, open file, PyDBML.parse, instance.parse) with the value on / off / not given.',
        note='Keys spelled like a setting keyword are written quoted by the harness (unquoted they are that setting). Multi-line values are checked for exact storage only (round trip: recorded finding C02-multiline-settings-text).',
        design='DESIGN.md §3 C15'),
    'C16': dict(
        level='model_checking', technique='configuration product x routes x attach/detach histories with tagged custom renderers; exactly-once containment on every C01 BFS state; exhaustive render-call sequences with a public-model snapshot after every call',
        text='4x4 renderer configurations on six configuration routes (Database(), PyDBML(str / Path / open file), PyDBML.parse, instance.parse), each with add/delete/re-add histories of every top-level element kind and its columns, decide which class rendered each text; on every well-formed '
             'state of the C01 derivation BFS and on every combination of up to 2 (quick) / 3 of 13 degenerate-content tweaks of a full model every element text must occur exactly once, at an element boundary, in the database text; every sequence of render calls up to the bound (23 calls, incl. the join table of a <> reference) '
             'must leave the public model snapshot unchanged and return what the call returns when evaluated first (also on a database with an inline composite reference, whose DBML raises). Routing is also checked on a database without tables, after deleting through an equal object of another database, and exactly-once after a referenced table was deleted.',
        note='Custom renderers are BaseRenderer subclasses with their own handler dict. The purity snapshot is the public model (content, order, identity per container slot, back-pointers); private attributes are not part of it.',
        design='DESIGN.md §3 C16'),
    'C17': dict(
        level='model_checking', technique='explicit-state BFS over attribute-removal / restoration / detachment histories with every rendering evaluated in every state; exhaustive reference product with a classifying reference model',
        text='Histories over {unset a required attribute, restore it, set it to the empty string (a value, not a missing attribute), detach / re-attach table and enum} are executed on real objects; in every state the .sql of every element and container must raise '
             'AttributeMissingError exactly while something it renders lacks a named attribute. Every reference over two attached tables and an unattached column (sides 1-2, four kinds, inline or not, '
             'attached or not) is classified consistent / detached / mixed / composite-inline and the predicted exception class is required for .sql, .dbml, .table1, .table2; histories that move or detach '
             'a column after the reference was looked at, and attach/detach histories for get_refs (plain, abstract and aliased tables; the join table of a <> reference), complete it.',
        note='Only the attributes the statement names are asserted. Where detached and mixed coincide either error is accepted. A detached table\'s own .sql (UnknownDatabaseError, pinned by the tests) is not asserted.',
        design='DESIGN.md §3 C17'),
    'C18': dict(
        level='exploration', technique='exhaustive enumeration of all labelled DAGs (n<=4/5) x edge kinds, SQL read back by independent DDL reader',
        text='Every labelled DAG of inline references on up to 4 (quick) / 5 (thorough) tables with every assignment of kinds >,<,- is built, '
             'rendered and read back; the order, permutation, clause-placement and determinism clauses are decided for each, including render / edit / render histories (one reference made standalone; every sequence of up to two edits of the inline flag or kind of one reference on models with up to 3 tables) against a fresh build, a two-schema same-name variant, a column-less table and a model with an enum. Small-scope exhaustive: the ordering '
             'rule is a function of the reference graph only, and every graph shape up to the bound is covered.',
        note='Trusts verif/ddl.py to recognise CREATE TABLE / FOREIGN KEY. Databases are API-built. The pinned count heuristic is a recorded known finding '
             '(known_findings.json C18-count-heuristic); any order other than the one that heuristic predicts is reported.',
        design='DESIGN.md §3 C18'),
}

ALL = [f'C{i:02d}' for i in range(1, 19)]


def main():
    checks = []
    for pid in ALL:
        if pid not in CHECKS:
            continue
        c = CHECKS[pid]
        checks.append({
            'property_id': pid,
            'quick_cmd': f'{PY} -m verif.check {pid} --tier quick',
            'thorough_cmd': f'{PY} -m verif.check {pid} --tier thorough',
            'evidence_file': f'/verif/evidence/{pid}.json',
            'replay_cmd_template': f'{PY} -m verif.replay {{path}}',
            'engine': 'verif (python, explicit enumeration on the real code)',
            'level_claimed': {'category': c['level'], 'text': c['text'], 'design_ref': c['design']},
            'level_note': c['note'],
            'technique': c['technique'],
        })
    man = {
        'version': 1,
        'setup_cmd': f'{PY} -c "import sys; sys.path.insert(0, \'/verif\'); import verif.runner, verif.canon, verif.ddl; print(\'verif ok\')"',
        'hooks': {
            'guard': 'PYDBML_VERIF',
            'enable': 'no source hooks are needed: every observation point is a public attribute, exception class or rendered text; '
                      'checks import pydbml straight from /repo (or $VERIF_REPO) working tree',
            'baseline_off_cmd': 'cd /repo && /venv/bin/python -m pytest -ra -q -p no:cacheprovider --timeout=900 --continue-on-collection-errors',
            'source_commits': [],
            'add_only': True,
        },
        'engines': [
            {'name': 'verif', 'path': '/verif/verif', 'serves_properties': sorted(CHECKS),
             'kind_free_text': 'hand-written bounded exhaustive explorer in Python: enumerates finite spaces of documents / models / operation '
                               'histories / schedules and runs every member on the real pydbml code against independent oracles'},
        ],
        'checks': checks,
        'not_applicable': [{'property_id': p, 'reason': 'check not built yet in this revision (planned, see DESIGN.md §3)'}
                           for p in ALL if p not in CHECKS],
        'notes': 'Run a single check: /venv/bin/python -m verif.check C18 --tier quick (cwd /verif). VERIF_SEED, VERIF_TIER, VERIF_JOBS, VERIF_REPO honoured.',
    }
    with open(os.path.join(VERIF, 'MANIFEST.json'), 'w') as f:
        json.dump(man, f, indent=1)
    print('MANIFEST.json written:', len(checks), 'checks')


if __name__ == '__main__':
    main()
