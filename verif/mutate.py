"""Detection self-test helper (not a registered command).

  python -m verif.mutate --patch seeded/x/patch.diff --checks C01,C05 [--tests] [--tier quick]
  python -m verif.mutate --file pydbml/x.py --old 'a' --new 'b' --checks C01

Copies /repo to a scratch directory outside /repo and /verif, applies the change, optionally runs the
repository's own tests there, runs the named checks with VERIF_REPO pointing at the copy, prints one
line per check (DETECTED / missed) and removes the copy."""
import argparse
import os
import shutil
import subprocess
import sys
import tempfile


def main():
    ap = argparse.ArgumentParser()
    ap.add_argument('--patch')
    ap.add_argument('--file')
    ap.add_argument('--old')
    ap.add_argument('--new')
    ap.add_argument('--checks', required=True)
    ap.add_argument('--tests', action='store_true')
    ap.add_argument('--tier', default='quick')
    ap.add_argument('--keep', action='store_true')
    a = ap.parse_args()
    d = tempfile.mkdtemp(prefix='pydbml_mut_', dir='/tmp')
    try:
        subprocess.check_call(['rsync', '-a', '--exclude', '.git', '--exclude', '__pycache__', '/repo/', d + '/'])
        if a.patch:
            subprocess.check_call(['patch', '-p1', '-s', '-d', d, '-i', os.path.abspath(a.patch)])
        else:
            p = os.path.join(d, a.file)
            s = open(p).read()
            if s.count(a.old) != 1:
                print(f'--old occurs {s.count(a.old)} times in {a.file}; need exactly 1')
                return 2
            open(p, 'w').write(s.replace(a.old, a.new))
        env = dict(os.environ, VERIF_REPO=d, PYTHONDONTWRITEBYTECODE='1', VERIF_EVIDENCE_DIR=d + '/.ev', VERIF_REPLAY_DIR=d + '/.replays')
        if a.tests:
            r = subprocess.run(['/venv/bin/python', '-m', 'pytest', '-q', '-x', '-p', 'no:cacheprovider', '--timeout=900'],
                               cwd=d, env=dict(env, PYTHONPATH=d), capture_output=True, text=True)
            print('repo tests:', r.stdout.strip().splitlines()[-1] if r.stdout.strip() else r.stderr[-300:])
        for pid in a.checks.split(','):
            r = subprocess.run(['/venv/bin/python', '-m', 'verif.check', pid, '--tier', a.tier], cwd='/verif', env=env,
                               capture_output=True, text=True)
            viol = [l for l in r.stdout.splitlines() if l.startswith('VIOLATION')]
            kinds = sorted({l.strip().split(' ')[0] for l in r.stdout.splitlines() if l.startswith('  kind=')})
            print(f'{pid}: exit={r.returncode} {"DETECTED" if viol else "missed"} {len(viol)} replays {kinds}')
            if r.returncode not in (0, 1) or (r.returncode == 1 and not viol):
                print(r.stdout[-1500:], r.stderr[-1500:])
            # replays written during mutant runs refer to the scratch tree: drop them
    finally:
        if not a.keep:
            shutil.rmtree(d, ignore_errors=True)


if __name__ == '__main__':
    sys.exit(main())
