"""Detection self-test by systematic mutation (not a registered command; results are kept under /verif/mutants/).

  python -m verif.mutsweep --files pydbml/renderer/sql/default/index.py,... [--workers 3] [--jobs 5] [--budget-min 200]
  python -m verif.mutsweep --summary

For every file named, every first-order mutant of a fixed operator set is generated from the syntax tree (comparison
operators swapped, and/or swapped, `not` dropped, conditions forced true / false, boolean and small integer constants
changed, a statement replaced by `pass`, a returned / assigned expression's `+` operands swapped is NOT included: only
operators whose result is a different program in general).  Each mutant is written into a scratch copy of /repo (outside
/repo and /verif, removed afterwards), the repository's own tests are run, and for every mutant that **passes the 470
tests** the quick checks mapped to the file's area are run one after the other (VERIF_REPO = the scratch copy) until one
reports a violation.  One JSON line per mutant goes to /verif/mutants/<file>.jsonl: operator, location, source line, tests
killed / survived, which check detected it or "undetected".

Undetected survivors are triaged by hand (equivalent on the domain of the 18 properties, or a gap that gets a stronger
check): see DESIGN.md §8.
"""
from __future__ import annotations

import argparse
import ast
import copy
import json
import multiprocessing
import os
import shutil
import subprocess
import sys
import tempfile
import time

PY = '/venv/bin/python'
OUT = '/verif/mutants'

AREA_CHECKS = [
    ('pydbml/definitions/', ['C01', 'C07', 'C14', 'C15', 'C06', 'C13', 'C08']),
    ('pydbml/parser/blueprints.py', ['C01', 'C05', 'C06', 'C04', 'C14']),
    ('pydbml/parser/parser.py', ['C12', 'C01', 'C15', 'C05', 'C06', 'C16', 'C11']),
    ('pydbml/_classes/', ['C15', 'C09', 'C17', 'C10', 'C05', 'C16', 'C03', 'C02']),
    ('pydbml/database.py', ['C09', 'C05', 'C10', 'C16']),
    ('pydbml/renderer/sql/', ['C03', 'C04', 'C18', 'C17', 'C14', 'C13', 'C16']),
    ('pydbml/renderer/dbml/', ['C02', 'C17', 'C14', 'C13', 'C15', 'C10', 'C16']),
    ('pydbml/renderer/base.py', ['C16', 'C02', 'C03']),
    ('pydbml/tools.py', ['C13', 'C14', 'C02', 'C03', 'C12']),
    ('pydbml/', ['C01', 'C02', 'C03']),
]

GRAMMAR_OPS = False
CMP_SWAP = {ast.Eq: ast.NotEq, ast.NotEq: ast.Eq, ast.Lt: ast.LtE, ast.LtE: ast.Lt, ast.Gt: ast.GtE, ast.GtE: ast.Gt,
            ast.Is: ast.IsNot, ast.IsNot: ast.Is, ast.In: ast.NotIn, ast.NotIn: ast.In}


def checks_for(path):
    for prefix, cs in AREA_CHECKS:
        if path.startswith(prefix):
            return cs
    return ['C01']


class Site:
    def __init__(self, op, lineno, desc):
        self.op, self.lineno, self.desc = op, lineno, desc


def is_docstring(parent, node):
    return (isinstance(parent, (ast.FunctionDef, ast.ClassDef, ast.Module, ast.AsyncFunctionDef)) and parent.body
            and isinstance(parent.body[0], ast.Expr) and parent.body[0].value is node)


def mutants(src):
    """yield (operator, lineno, description, mutated source) in a deterministic order"""
    tree = ast.parse(src)
    # number the candidate sites
    sites = []
    parents = {}
    for parent in ast.walk(tree):
        for child in ast.iter_child_nodes(parent):
            parents[child] = parent
    in_type_checking = set()
    for node in ast.walk(tree):
        if isinstance(node, ast.If) and 'TYPE_CHECKING' in ast.unparse(node.test):
            for sub in ast.walk(node):
                in_type_checking.add(sub)
    for node in ast.walk(tree):
        if node in in_type_checking:
            continue
        if isinstance(node, ast.Compare):
            for k, op in enumerate(node.ops):
                if type(op) in CMP_SWAP:
                    sites.append(('cmp', node, k))
        elif isinstance(node, ast.BoolOp):
            sites.append(('boolop', node, None))
        elif isinstance(node, ast.BinOp) and GRAMMAR_OPS and isinstance(node.op, (ast.Sub, ast.BitOr)):
            # grammar files: `a - b` (pyparsing error stop) -> `a + b`, `a | b` (first match) -> `a ^ b` (longest match)
            sites.append(('grammar-op', node, None))
        elif isinstance(node, ast.UnaryOp) and isinstance(node.op, ast.Not):
            sites.append(('dropnot', node, None))
        elif isinstance(node, (ast.If, ast.IfExp, ast.While)):
            sites.append(('cond-true', node, None))
            sites.append(('cond-false', node, None))
        elif isinstance(node, ast.comprehension) and node.ifs:
            sites.append(('filter-dropped', node, None))
        elif isinstance(node, ast.Constant):
            par = parents.get(node)
            if isinstance(node.value, bool):
                sites.append(('const-bool', node, None))
            elif isinstance(node.value, int) and abs(node.value) <= 4:
                sites.append(('const-int', node, None))
        elif isinstance(node, ast.Expr) and isinstance(node.value, ast.Call):
            sites.append(('stmt-deleted', node, None))
        elif isinstance(node, (ast.Assign, ast.AugAssign)) and isinstance(parents.get(node), (ast.FunctionDef, ast.If, ast.For, ast.With, ast.Try, ast.While)):
            sites.append(('stmt-deleted', node, None))
        elif isinstance(node, ast.Return) and node.value is not None and not (isinstance(node.value, ast.Constant) and node.value.value is None):
            sites.append(('return-none', node, None))
        elif isinstance(node, ast.Raise):
            sites.append(('stmt-deleted', node, None))
    sites.sort(key=lambda s: (getattr(s[1], 'lineno', 0), getattr(s[1], 'col_offset', 0), s[0], s[2] or 0))
    for kind, node, k in sites:
        # apply on a deep copy located by position + type
        t2 = copy.deepcopy(tree)
        target = None
        for cand in ast.walk(t2):
            if type(cand) is type(node) and getattr(cand, 'lineno', None) == getattr(node, 'lineno', None) and \
                    getattr(cand, 'col_offset', None) == getattr(node, 'col_offset', None) and \
                    getattr(cand, 'end_col_offset', None) == getattr(node, 'end_col_offset', None):
                target = cand
                break
        if target is None and isinstance(node, ast.comprehension):
            for cand in ast.walk(t2):
                if isinstance(cand, ast.comprehension) and ast.dump(cand) == ast.dump(node):
                    target = cand
                    break
        if target is None:
            continue
        lineno = getattr(node, 'lineno', getattr(getattr(node, 'target', None), 'lineno', 0))
        before = ast.unparse(node)[:100]
        if kind == 'cmp':
            target.ops[k] = CMP_SWAP[type(target.ops[k])]()
        elif kind == 'grammar-op':
            target.op = ast.Add() if isinstance(target.op, ast.Sub) else ast.BitXor()
        elif kind == 'boolop':
            target.op = ast.Or() if isinstance(target.op, ast.And) else ast.And()
        elif kind == 'dropnot':
            _replace(t2, target, target.operand)
        elif kind == 'cond-true':
            target.test = ast.Constant(True)
        elif kind == 'cond-false':
            target.test = ast.Constant(False)
        elif kind == 'filter-dropped':
            target.ifs = []
        elif kind == 'const-bool':
            target.value = not target.value
        elif kind == 'const-int':
            target.value = target.value + 1
        elif kind == 'stmt-deleted':
            _replace(t2, target, ast.Pass())
        elif kind == 'return-none':
            target.value = ast.Constant(None)
        ast.fix_missing_locations(t2)
        try:
            out = ast.unparse(t2)
            compile(out, '<mutant>', 'exec')
        except Exception:
            continue
        if out == ast.unparse(tree):
            continue
        yield kind, lineno, before, out


def _replace(tree, old, new):
    for parent in ast.walk(tree):
        for field, value in ast.iter_fields(parent):
            if value is old:
                setattr(parent, field, new)
                return
            if isinstance(value, list):
                for i, v in enumerate(value):
                    if v is old:
                        value[i] = new
                        return


def run(cmd, cwd, env, timeout):
    try:
        r = subprocess.run(cmd, cwd=cwd, env=env, capture_output=True, text=True, timeout=timeout)
        return r.returncode, r.stdout, r.stderr
    except subprocess.TimeoutExpired:
        return 124, '', 'timeout'


def process(job):
    path, idx, kind, lineno, before, mutated, jobs, deadline = job
    rec = {'file': path, 'index': idx, 'operator': kind, 'line': lineno, 'source': before}
    if time.time() > deadline:
        rec['result'] = 'not-run(budget)'
        return rec
    d = tempfile.mkdtemp(prefix='pydbml_ms_', dir='/tmp')
    try:
        subprocess.check_call(['rsync', '-a', '--exclude', '.git', '--exclude', '__pycache__', '/repo/', d + '/'])
        open(os.path.join(d, path), 'w').write(mutated)
        env = dict(os.environ, PYTHONPATH=d, PYTHONDONTWRITEBYTECODE='1')
        rc, out, err = run([PY, '-m', 'pytest', '-q', '-x', '-p', 'no:cacheprovider', '--timeout=120'], d, env, 900)
        if rc != 0:
            rec['tests'] = 'killed'
            rec['result'] = 'killed-by-tests'
            return rec
        rec['tests'] = 'survived'
        env = dict(os.environ, VERIF_REPO=d, PYTHONDONTWRITEBYTECODE='1', VERIF_EVIDENCE_DIR=d + '/.ev', VERIF_REPLAY_DIR=d + '/.replays',
                   VERIF_JOBS=str(jobs), VERIF_VIOL_CAP='3', VERIF_FAIL_FAST='1')
        rec['checks_run'] = []
        rec['result'] = 'undetected'
        for pid in checks_for(path):
            t0 = time.time()
            rc, out, err = run([PY, '-m', 'verif.check', pid, '--tier', 'quick'], '/verif', env, 1500)
            viol = [l for l in out.splitlines() if l.startswith('VIOLATION')]
            rec['checks_run'].append({'check': pid, 'exit': rc, 'wall_s': round(time.time() - t0, 1)})
            if viol and rc == 1:
                kinds = sorted({l.strip().split(' ')[0].replace('kind=', '') for l in out.splitlines() if l.startswith('  kind=')})
                rec['result'] = 'detected'
                rec['detected_by'] = pid
                rec['kinds'] = kinds
                break
            if rc not in (0, 1):
                rec['checks_run'][-1]['error'] = (out[-300:] + err[-300:])
                # a check that crashes on the mutant (harness exception) counts as detected-by-crash, recorded separately
                rec['result'] = 'check-crashed'
                rec['detected_by'] = pid
                break
        return rec
    finally:
        shutil.rmtree(d, ignore_errors=True)


def summary():
    rows = {}
    und = []
    best = {}
    rank = {'detected': 3, 'check-crashed': 2, 'killed-by-tests': 2, 'undetected': 1}
    for fn in sorted(os.listdir(OUT)):
        if not fn.endswith('.jsonl'):
            continue
        for line in open(os.path.join(OUT, fn)):
            r = json.loads(line)
            k = (r['file'], r['operator'] == 'grammar-op', r['index'])
            if k not in best or rank.get(r['result'], 0) > rank.get(best[k]['result'], 0):
                best[k] = r        # (a mutant processed twice — two sweep processes, or re-run after a check was strengthened — counts once)
    for r in best.values():
        c = rows.setdefault(r['file'], {})
        c[r['result']] = c.get(r['result'], 0) + 1
        if r['result'] == 'undetected':
            und.append(r)
    und.sort(key=lambda r: (r['file'], r['line'], r['index']))
    print('| file | mutants | killed by the 470 tests | survive the tests | detected by a check | undetected |')
    print('|---|---|---|---|---|---|')
    for f, c in rows.items():
        n = sum(v for k, v in c.items() if not k.startswith('not-run'))
        surv = c.get('detected', 0) + c.get('undetected', 0) + c.get('check-crashed', 0)
        print(f"| {f} | {n} | {c.get('killed-by-tests', 0)} | {surv} | {c.get('detected', 0) + c.get('check-crashed', 0)} | {c.get('undetected', 0)} |")
    print()
    tot = {}
    for c in rows.values():
        for k, v in c.items():
            tot[k] = tot.get(k, 0) + v
    print('TOTAL', tot)
    for r in und:
        src = r['source'].split(chr(10))[0]
        print(f"UNDETECTED {r['file']}:{r['line']} #{r['index']} {r['operator']}: {src}")


def main():
    ap = argparse.ArgumentParser()
    ap.add_argument('--files', default='')
    ap.add_argument('--workers', type=int, default=3)
    ap.add_argument('--jobs', type=int, default=5)
    ap.add_argument('--budget-min', type=float, default=200)
    ap.add_argument('--summary', action='store_true')
    ap.add_argument('--list', action='store_true')
    ap.add_argument('--grammar-ops', action='store_true', help='only the pyparsing operator mutants (- -> +, | -> ^); results go to <file>.grammar.jsonl')
    ap.add_argument('--recheck', default='', help='comma-separated mutant indices of the single file given: process them again')
    a = ap.parse_args()
    os.makedirs(OUT, exist_ok=True)
    if a.summary:
        return summary()
    deadline = time.time() + a.budget_min * 60
    global GRAMMAR_OPS
    GRAMMAR_OPS = a.grammar_ops
    for path in [f for f in a.files.split(',') if f]:
        src = open(os.path.join('/repo', path)).read()
        ms = list(mutants(src))
        if a.grammar_ops:
            ms = [m for m in ms if m[0] == 'grammar-op']
        outp = os.path.join(OUT, path.replace('/', '__') + ('.grammar' if a.grammar_ops else '') + '.jsonl')
        done = set()
        if os.path.exists(outp):
            for line in open(outp):
                r = json.loads(line)
                if not r['result'].startswith('not-run'):
                    done.add(r['index'])
        print(f'{path}: {len(ms)} mutants, {len(done)} already recorded', flush=True)
        if a.list:
            for i, (k, ln, b, _) in enumerate(ms):
                print(f'  #{i} {k} line {ln}: {b}')
            continue
        if a.recheck:
            done -= {int(x) for x in a.recheck.split(',')}
            done |= {i for i in range(len(ms)) if i not in {int(x) for x in a.recheck.split(',')}}
        jobs = [(path, i, k, ln, b, m, a.jobs, deadline) for i, (k, ln, b, m) in enumerate(ms) if i not in done]
        with multiprocessing.Pool(a.workers) as pool, open(outp, 'a') as f:
            for rec in pool.imap_unordered(process, jobs):
                if rec['result'].startswith('not-run'):
                    continue
                f.write(json.dumps(rec) + '\n')
                f.flush()
                print(f"  #{rec['index']} {rec['operator']} line {rec['line']}: {rec['result']} {rec.get('detected_by', '')} | {rec['source'][:70]}", flush=True)
    return 0


if __name__ == '__main__':
    sys.exit(main())
