"""C01 — parsing is faithful.

(a) exhaustive per-element feature products, packed many elements per document, each document
    written under every style of a pairwise-complete style set and parsed by the real parser;
    oracle: canon(PyDBML(text)) == the abstract model the text was written from.
(b) identifier sweep: every identifier shape at every name-bearing position.
(c) whole-document derivation BFS: states are sequences of top-level declarations (every textual
    order, references/groups before their tables, enums after their users), transition = append one
    declaration; invariant checked in every well-formed state.
"""
from __future__ import annotations

import itertools

from .. import asm as A
from .. import canon, writer, styles
from ..runner import new_part, violation, digest, exc_info

PID = 'C01'
LEVEL = 'model_checking'
RULE = ('element products (column/index/table/enum/ref/group/note/project feature products) x pairwise-complete style sets, '
        'identifier shapes x name-bearing positions, and the derivation BFS over top-level declaration sequences; '
        'distinct_nontrivial = distinct (abstract element or state) digests whose document parsed and was compared; '
        'states = distinct declaration sequences, transitions = appends')
ASSUMPTIONS = ['writer (verif/writer.py) emits DBML per the language rules, independent of pydbml.renderer',
               'alias keyword `as` and inline `ref:` are written lower-case (case-sensitive literals in the grammar)',
               'line ending is \\n; blank lines only where the pinned grammar admits them']

COL_DIMS = ('quote', 'case', 'string', 'airy', 'order', 'multiline', 'addr', 'legacy', 'pk_word', 'eof_newline')
IDX_DIMS = ('quote', 'case', 'string', 'airy', 'order', 'multiline', 'idx_pos', 'eof_newline')
TAB_DIMS = ('quote', 'case', 'string', 'airy', 'order', 'multiline', 'note_form', 'note_pos', 'idx_pos', 'addr', 'eof_newline')
REF_DIMS = ('quote', 'case', 'airy', 'order', 'multiline', 'ref_form', 'addr', 'eof_newline')
ALL_DIMS = tuple(sorted(styles.DIMS))


def sub_styles(seed, dims):
    return styles.pairwise(seed, {d: styles.DIMS[d] for d in dims})


def bounds(tier):
    return {'bfs_depth': 3 if tier == 'quick' else 4, 'column_product': 'reduced' if tier == 'quick' else 'full',
            'pack': 24}


# ------------------------------------------------------------------------------------------------
# abstract element generators

DEFAULTS = [
    (['none'], None),
    (['int', 0], None), (['int', 1], None), (['int', 7], ['int', 7, '007']),
    (['float', 0.0], None), (['float', 1.5], None),
    (['bool', True], None), (['bool', False], None),
    (['str', 'NULL'], ['null']),
    (['str', ''], None), (['str', 'x'], None), (['str', 'null'], None), (['str', 'true'], None),
    (['str', "it's"], None), (['str', 'a "b"'], None),
    (['expr', 'now()'], None), (['expr', "a'b(\"c\")"], None),
]
TYPES = [['str', 'int'], ['str', 'varchar(255)'], ['str', 'decimal(10, 2)'], ['str', 'int[]'],
         ['enum', 'public', 'e'], ['enum', 's', 'e2'], ['str', 'character varying'], ['str', 'x.y'], ['str', 'x.y(3)'], ['str', 'x.y[]'], ['str', 'E'],
         ['str', 'numeric((1), f(2))'], ['str', "enum('a', 'b')"]]
FLAGS = list(itertools.product([False, True], repeat=4))


def gen_columns(tier):
    cols = []

    def mk(flags, d, ty, note, nrefs, null_explicit=False):
        pk, unique, not_null, autoinc = flags
        c = A.col('c', ty, pk=pk, unique=unique, not_null=not_null, autoinc=autoinc, default=d[0], note=note)
        if d[1]:
            c['default_src'] = d[1]
        if null_explicit and not not_null:
            c['null_explicit'] = True
        c['_nrefs'] = nrefs
        return c
    if tier == 'quick':
        for flags in FLAGS:
            for d in DEFAULTS:
                for ty in TYPES:
                    cols.append(mk(flags, d, ty, '', 0))
        for flags in FLAGS:
            for note in ('', 'a note', "n'q\nline2"):
                for nrefs in (0, 1, 2):
                    for d in (DEFAULTS[0], DEFAULTS[2], DEFAULTS[10], DEFAULTS[15]):
                        for ty in (TYPES[0], TYPES[4]):
                            cols.append(mk(flags, d, ty, note, nrefs, null_explicit=(nrefs == 1)))
    else:
        for flags in FLAGS:
            for d in DEFAULTS:
                for ty in TYPES:
                    for note in ('', 'a note', "n'q\nline2"):
                        for nrefs in (0, 1, 2):
                            cols.append(mk(flags, d, ty, note, nrefs, null_explicit=(nrefs == 1)))
    return cols


REFKINDS = ['>', '<', '-', '<>']


def columns_model(cols, base=0):
    """One table 'a' holding the given abstract columns (renamed c0..), a target table for inline refs,
    and the enums the types mention."""
    tcols, refs = [], []
    for k, c in enumerate(cols):
        c = dict(c)
        n = c.pop('_nrefs')
        c['name'] = f'c{k}'
        tcols.append(c)
        for j in range(n):
            kind = REFKINDS[(base + k + j) % 4]
            refs.append(A.ref(kind, [['public', 'a', c['name']]], [['s', 'tgt', 'id' if j == 0 else 'id2']], inline=(kind != '<>')))
            refs[-1]['_written_inline'] = True
    t = A.table('a', tcols)
    tgt = A.table('tgt', [A.col('id'), A.col('id2')], schema='s', alias='tg')
    return A.model(tables=[t, tgt], refs=refs, enums=[A.enum('e', ['x', 'y']), A.enum('e2', ['z'], schema='s')])


INDEX_TYPES = [None, 'btree', 'hash', 'gin', 'gist', 'brin', 'spgist']
SUBJECTS = [[['col', 'id']], [['col', 'id'], ['col', 'x y']], [['expr', 'id*2']], [['expr', 'lower(id)'], ['col', 'id']],
            [['col', 'x y']]]


def gen_indexes(tier):
    out = []
    for subs, pk, uniq, ty, name, note, comment in itertools.product(
            SUBJECTS, (False, True), (False, True), INDEX_TYPES, (None, 'ix name'), ('', "idx 'note'"), (None, 'trailing c', 'above\nlines')):
        if tier == 'quick' and comment == 'above\nlines' and (ty not in (None, 'hash') or name):
            continue
        i = A.index(subs, name=name, unique=uniq, type_=ty, pk=pk, note=note, comment=comment)
        out.append(i)
    # single subject written in parentheses
    i = A.index([['col', 'id']], unique=True)
    i['force_paren'] = True
    out.append(i)
    return out


def indexes_model(idxs, base=0):
    t = A.table('a', [A.col('id'), A.col('x y', 'varchar')], indexes=[dict(i) for i in idxs])
    return A.model(tables=[t])


def gen_tables(tier):
    out = []
    for schema, alias, hc, note, props, comment, nidx in itertools.product(
            ('public', 's', 'my schema'), (None, 'al', 'my alias'), (None, '#fff', '#A1b2C3'), ('', 'table note', "multi\nline 'note'"),
            (0, 1, 2), (None, 'one', 'two\nlines'), (0, 1, 3)):
        t = A.table('t', [A.col('id', pk=True), A.col('v', 'varchar')], schema=schema, alias=alias, header_color=hc, note=note,
                    comment=comment, properties=[['k1', 'v1'], ['k 2', "v'2\nx"]][:props],
                    indexes=[A.index(['id', 'v'], unique=True), A.index(['v'], name='second'), A.index([['expr', 'id+1']])][:nidx])
        if nidx == 3:
            if hc or props == 1 or comment == 'one':
                continue            # (the three-index variant on a sub-product only)
            t['idx_split'] = 1 if alias else 2      # written as two indexes blocks
        out.append(t)
    return out


def tables_model(tabs, base=0):
    ts = []
    for k, t in enumerate(tabs):
        t = dict(t)
        t['name'] = f't{base + k}'
        if t['alias']:
            t['alias'] = f"{t['alias']}{base + k}"
        ts.append(t)
    return A.model(tables=ts, allow_properties=any(t['properties'] for t in ts))


def gen_enums(tier):
    out = []
    for schema, nitems, inote, icomment, ecomment in itertools.product(
            ('public', 's'), (1, 2, 3), ('', 'item note', "it's\nml"), (None, 'trail', 'above\ntwo'), (None, 'ec', 'ec1\nec2')):
        items = []
        for k in range(nitems):
            items.append(A.item(f'i {k}' if k == 1 else f'i{k}', note=inote if k % 2 == 0 else '',
                                comment=icomment if k != 1 else None))
        out.append(A.enum('e', items, schema=schema, comment=ecomment))
    return out


def enums_model(ens, base=0):
    es = []
    for k, e in enumerate(ens):
        e = dict(e)
        e['name'] = f'e{base + k}'
        es.append(e)
    return A.model(enums=es)


ACTIONS = [None, 'cascade', 'restrict', 'set null', 'set default', 'no action']
ENDPOINTS = [
    # (col1, col2) pairs: self, cross-table, cross-schema, single and composite
    ([['public', 'a', 'id']], [['public', 'a', 'pid']]),
    ([['public', 'a', 'id']], [['public', 'b', 'a_id']]),
    ([['public', 'a', 'id']], [['s', 'c', 'a_id']]),
    ([['s', 'c', 'a_id']], [['public', 'b', 'id']]),
    ([['public', 'a', 'id'], ['public', 'a', 'pid']], [['public', 'b', 'a_id'], ['public', 'b', 'a_pid']]),
    ([['s', 'c', 'a_id'], ['s', 'c', 'id']], [['public', 'a', 'id'], ['public', 'a', 'pid']]),
    ([['s', 'al', 'id']], [['public', 'a', 'id']]),          # s.al: its bare name is the alias of public.a
    ([['public', 'b', 'id']], [['s', 'al', 'pid']]),
]


def gen_refs(tier):
    out = []
    for kind, name, ou, od, ep, comment in itertools.product(REFKINDS, (None, 'fk_n', 'fk n'), ACTIONS, ACTIONS, range(len(ENDPOINTS)),
                                                             (None, 'rc', 'r1\nr2')):
        if comment and (ou not in (None, 'cascade') or od not in (None, 'set null')):
            continue
        if tier == 'quick' and name == 'fk n' and (ou or od):
            continue
        c1, c2 = ENDPOINTS[ep]
        out.append(A.ref(kind, c1, c2, name=name, on_update=ou, on_delete=od, comment=comment))
    return out


def ref_tables():
    return [A.table('a', [A.col('id'), A.col('pid')], alias='al'),
            A.table('b', [A.col('id'), A.col('a_id'), A.col('a_pid')]),
            A.table('c', [A.col('id'), A.col('a_id')], schema='s', alias='sc'),
            A.table('al', [A.col('id'), A.col('pid')], schema='s')]


def refs_model(refs, base=0):
    return A.model(tables=ref_tables(), refs=[dict(r) for r in refs])


def gen_misc(tier):
    """groups, sticky notes, projects: each is a whole small model"""
    out = []
    for nitems, note, color, comment in itertools.product((0, 1, 2, 3), ('', 'gn', "g'n\nl2", '  deep\nshallow'), (None, '#abc', '#AbCdEf'), (None, 'gc', 'g1\ng2')):
        items = [['public', 'a'], ['s', 'c'], ['public', 'b']][:nitems]
        out.append(('group', A.group('g', items, note=note, color=color, comment=comment)))
    for nitems, color in ((0, None), (2, '#abc')):
        g = A.group('g', [['public', 'a'], ['s', 'c']][:nitems], note='', color=color)
        g['force_note'] = True          # `Note: ''` written out: an empty note is still a note object with an owner
        out.append(('group', g))
    for text in ('x', '', "it's", 'two\nlines', '  indented\n    more\n  back'):
        out.append(('note', A.sticky('n', text)))
    for nitems, note, comment in itertools.product((0, 1, 2), ('', 'pn', "p'n\nl2", '    deeper\n  deep\nshallow'), (None, 'pc', 'p1\np2')):
        out.append(('project', A.project('proj', [['database_type', 'PostgreSQL'], ['k 2', "v'2"]][:nitems], note=note, comment=comment)))
    return out


def misc_model(elems, base=0):
    m = A.model(tables=ref_tables())
    for k, (kind, e) in enumerate(elems):
        e = dict(e)
        if kind == 'group':
            e['name'] = f'g{base + k}'
            m['groups'].append(e)
        elif kind == 'note':
            e['name'] = f'n{base + k}'
            e['text'] = _norm_note(e['text'])
            m['notes'].append(e)
        else:
            m['project'] = e
    return m


def _norm_note(text):
    # the generators only use texts already in stored form, except the deliberately indented one
    if text.startswith('  indented'):
        return 'indented\n  more\nback'
    return text


PRODUCTS = {
    'columns': (gen_columns, columns_model, COL_DIMS, 24),
    'indexes': (gen_indexes, indexes_model, IDX_DIMS, 24),
    'tables': (gen_tables, tables_model, TAB_DIMS, 12),
    'enums': (gen_enums, enums_model, TAB_DIMS, 12),
    'refs': (gen_refs, refs_model, REF_DIMS, 24),
    'misc': (gen_misc, misc_model, TAB_DIMS, 8),
}


def pack_misc(elems, n):
    """misc packs must hold at most one project each"""
    packs, cur = [], []
    for e in elems:
        if len(cur) >= n or (e[0] == 'project' and any(x[0] == 'project' for x in cur)):
            packs.append(cur)
            cur = []
        cur.append(e)
    if cur:
        packs.append(cur)
    return packs


# ------------------------------------------------------------------------------------------------
# identifier sweep

IDENTS = ['a1_', 'a b', 'a.b', 'a-b', "a'b", 'a{b}', 'a//b', 'é', '1a', 'a:b', 'a[b]', 'a,b', '#a', 'a\\b', 'a\\nb',
          'table', 'enum', 'ref', 'note', 'indexes', 'project', 'tablegroup', 'as', 'pk', 'null', 'unique', 'default', 'true',
          'Note', 'TABLE', 'primary key', 'not null',
          # names that merely begin with a keyword
          'notes', 'note_x', 'indexes2', 'pkey', 'nullable', 'unique_id', 'increment_by', 'tablex', 'refs', 'enums', 'as_of', 'projects', 'defaults']
POSITIONS = ['table', 'schema', 'alias', 'column', 'enum', 'enum_schema', 'item', 'group', 'project', 'sticky', 'refname',
             'prop_key_table', 'prop_key_column', 'project_key', 'index_name', 'ref_target_col']


def ident_base():
    t = A.table('t', [A.col('id'), A.col('v', ['enum', 'public', 'e'])], alias='al')
    u = A.table('u', [A.col('id'), A.col('t_id')], schema='s')
    e = A.enum('e', ['i1', 'i2'])
    return A.model(tables=[t, u], enums=[e], refs=[A.ref('>', [['s', 'u', 't_id']], [['public', 't', 'id']], name='r')],
                   groups=[A.group('g', [['public', 't'], ['s', 'u']])], notes=[A.sticky('n', 'x')],
                   project=A.project('p', [['k', 'v']]))


def apply_ident(m, pos, name):
    """Put ``name`` at one name-bearing position of the base model, keeping all cross-references consistent."""
    t, u = m['tables']
    e = m['enums'][0]
    if pos == 'table':
        t['name'] = name
    elif pos == 'schema':
        u['schema'] = name
    elif pos == 'alias':
        t['alias'] = name
    elif pos == 'column':
        u['columns'][1]['name'] = name
    elif pos == 'ref_target_col':
        t['columns'][0]['name'] = name
    elif pos == 'enum':
        e['name'] = name
    elif pos == 'enum_schema':
        e['schema'] = name
    elif pos == 'item':
        e['items'][1]['name'] = name
    elif pos == 'group':
        m['groups'][0]['name'] = name
    elif pos == 'project':
        m['project']['name'] = name
    elif pos == 'sticky':
        m['notes'][0]['name'] = name
    elif pos == 'refname':
        m['refs'][0]['name'] = name
    elif pos == 'prop_key_table':
        t['properties'] = [[name, 'v']]
        m['allow_properties'] = True
    elif pos == 'prop_key_column':
        t['columns'][0]['properties'] = [[name, 'v']]
        m['allow_properties'] = True
    elif pos == 'project_key':
        m['project']['items'] = [[name, 'v']]
    elif pos == 'index_name':
        t['indexes'] = [A.index([t['columns'][0]['name']], name=name)]
    # re-derive every cross reference from the (possibly renamed) declarations
    t['columns'][1]['type'] = ['enum', e['schema'], e['name']]
    m['refs'][0]['col1'] = [[u['schema'], u['name'], u['columns'][1]['name']]]
    m['refs'][0]['col2'] = [[t['schema'], t['name'], t['columns'][0]['name']]]
    m['groups'][0]['items'] = [[t['schema'], t['name']], [u['schema'], u['name']]]
    for i in t['indexes']:
        i['subjects'] = [['col', t['columns'][0]['name']]]
    return m


def ident_model(pos, name):
    """A small model with ``name`` at one name-bearing position (everything else plain)."""
    return apply_ident(ident_base(), pos, name)


IDENT_EXCLUDED = set()      # (none: keys spelled like a keyword are written quoted by the writer, which is what makes them keys)

# Frozen table (written down once from the pinned grammar, never learnt at run time): positions where a
# word that is also a grammar keyword cannot be written *bare* because the keyword alternative of the same
# body wins or commits (error stop).  These names are written double-quoted only.
BARE_EXCLUDED = {
    ('schema', 'note'), ('alias', 'note'),          # a group member spelled `note...` starts a Note element
}

IDENT_STYLES = [writer.Style(), writer.Style(quote='quoted', addr='bare'), writer.Style(addr='alias', case='upper', ref_form='block'),
                writer.Style(quote='quoted', addr='full', case='lower', string='d')]


# ------------------------------------------------------------------------------------------------
# derivation BFS: alphabet of top-level declarations

def _decls():
    D = {}
    D['Ta'] = ('table', A.table('a', [A.col('id', pk=True), A.col('x', 'varchar')]))
    D['Ta_idx'] = ('table', A.table('a', [A.col('id', pk=True), A.col('x', 'varchar')], note='an',
                                    indexes=[A.index(['id', 'x'], unique=True), A.index([['expr', 'lower(x)']], name='lx')]))
    D['Tb'] = ('table', A.table('b', [A.col('id'), A.col('a_id'), A.col('a_x', 'varchar')], alias='bb'))
    D['Tb_inl'] = ('table+ref', A.table('b', [A.col('id'), A.col('a_id'), A.col('a_x', 'varchar')], alias='bb'),
                   [A.ref('>', [['public', 'b', 'a_id']], [['public', 'a', 'id']], inline=True)])
    D['Tsa'] = ('table', A.table('a', [A.col('id'), A.col('b_id')], schema='s'))
    D['Tsa_inl'] = ('table+ref', A.table('a', [A.col('id'), A.col('b_id')], schema='s'),
                    [A.ref('<', [['s', 'a', 'id']], [['public', 'b', 'id']], inline=True),
                     A.ref('-', [['s', 'a', 'b_id']], [['public', 'a', 'id']], inline=True)])
    # a table whose bare name is the alias of Tb: the inline reference it declares must start at *its* column (the only
    # unambiguous fact about such a document; nothing else addresses public.bb by name)
    D['Tbb_inl'] = ('table+ref', A.table('bb', [A.col('id'), A.col('k')]),
                    [A.ref('>', [['public', 'bb', 'id']], [['public', 'a', 'id']], inline=True)])
    D['Tc_enum'] = ('table', A.table('c', [A.col('k', ['typename', 'e']), A.col('l', ['typename', 's.e']), A.col('m', ['typename', 'public.e']),
                                           A.col('n', ['typename', 'E']), A.col('o', ['typename', 'S.e']), A.col('q', ['typename', 'x.e'])]))
    D['E'] = ('enum', A.enum('e', ['x', A.item('y', note='yn')]))
    D['Es'] = ('enum', A.enum('e', ['z'], schema='s'))
    D['R_ab'] = ('ref', A.ref('<', [['public', 'a', 'id']], [['public', 'b', 'a_id']], name='r_ab', on_delete='cascade'))
    D['R_comp'] = ('ref', A.ref('>', [['public', 'b', 'a_id'], ['public', 'b', 'a_x']], [['public', 'a', 'id'], ['public', 'a', 'x']]))
    D['R_sa'] = ('ref', A.ref('-', [['s', 'a', 'id']], [['public', 'a', 'id']], on_update='set null'))
    D['R_m2m'] = ('ref', A.ref('<>', [['public', 'a', 'id']], [['public', 'b', 'id']]))
    D['G'] = ('group', A.group('g', [['public', 'a'], ['public', 'b']], note='gn'))
    D['Gs'] = ('group', A.group('gs', [['s', 'a']], color='#abc'))
    D['N'] = ('note', A.sticky('n1', 'sticky'))
    D['P'] = ('project', A.project('pr', [['database_type', 'pg']], note='pn'))
    return D


DECLS = _decls()
EXCLUSIVE = [{'Ta', 'Ta_idx'}, {'Tb', 'Tb_inl'}, {'Tsa', 'Tsa_inl'}]


def state_model(seq):
    """-> (model, order, wellformed).  The reference semantics of a declaration sequence."""
    m = A.model()
    order = []
    for name in seq:
        d = DECLS[name]
        kind = d[0]
        if kind in ('table', 'table+ref'):
            m['tables'].append(A.clone(d[1]))
            order.append(('table', len(m['tables']) - 1))
            if kind == 'table+ref':
                for r in d[2]:
                    m['refs'].append(A.clone(r))
        elif kind == 'enum':
            m['enums'].append(A.clone(d[1]))
            order.append(('enum', len(m['enums']) - 1))
        elif kind == 'ref':
            m['refs'].append(A.clone(d[1]))
            order.append(('ref', len(m['refs']) - 1))
        elif kind == 'group':
            m['groups'].append(A.clone(d[1]))
            order.append(('group', len(m['groups']) - 1))
        elif kind == 'note':
            m['notes'].append(A.clone(d[1]))
            order.append(('note', len(m['notes']) - 1))
        elif kind == 'project':
            m['project'] = A.clone(d[1])
            order.append(('project', 0))
    # reference semantics: resolve type names against the enums declared anywhere in the document
    enums = {(e['schema'], e['name']) for e in m['enums']}
    for t in m['tables']:
        for c in t['columns']:
            if c['type'][0] == 'typename':
                txt = c['type'][1]
                sch, nm = txt.split('.') if '.' in txt else ('public', txt)
                c['type'] = ['enum', sch, nm] if (sch, nm) in enums else ['str', txt]
    # well-formedness: every referenced table/column exists
    tabs = {(t['schema'], t['name']): {c['name'] for c in t['columns']} for t in m['tables']}
    ok = True
    for r in m['refs']:
        for s, t, c in r['col1'] + r['col2']:
            if (s, t) not in tabs or c not in tabs[(s, t)]:
                ok = False
    for g in m['groups']:
        for s, t in g['items']:
            if (s, t) not in tabs:
                ok = False
    return m, order, ok


def enabled(seq):
    used = set(seq)
    out = []
    for name in DECLS:
        if name in used:
            continue
        if any(name in grp and used & grp for grp in EXCLUSIVE):
            continue
        out.append(name)
    return out


def type_surface(m):
    """In BFS states the column types were written as plain names; convert resolved enum types back to
    how the writer must spell them (the writer handles ['enum', s, n] itself, nothing to do)."""
    return m


BFS_STYLES = [writer.Style(), writer.Style(quote='quoted', case='upper', airy=True, ref_form='block', addr='alias', eof_newline=False,
                                           note_form='block', note_pos='first', idx_pos='first', multiline='trail', order=-1)]


# ------------------------------------------------------------------------------------------------
# checking

def parse_and_diff(m, st, order=None):
    """-> (diffs or None, outcome, text)"""
    from pydbml import PyDBML
    text = writer.write(m, st, order)
    try:
        db = PyDBML(text, allow_properties=True) if m.get('allow_properties') else PyDBML(text)
    except Exception as e:
        return [f'parser raised {type(e).__name__}: {str(e)[:200]}'], 'raised:' + type(e).__name__, text
    exp = expected_of(m)
    got = canon.canon(db)
    if canon.same(got, exp):
        return None, 'equal', text
    return canon.diff(got, exp), 'differs', text


def expected_of(m):
    return writer.expected(m)


def check_pack(p, product, elems, base, style_list):
    gen, mk, dims, _ = PRODUCTS[product]
    m = mk(elems, base)
    for st in style_list:
        diffs, outcome, text = parse_and_diff(m, st)
        p['evaluations'] += 1
        p['outcomes'][f'{product}/{outcome}'] += 1
        if diffs is None:
            continue
        # isolate: re-run every element alone
        isolated = False
        for k, e in enumerate(elems):
            m1 = mk([e], base + k)
            d1, o1, t1 = parse_and_diff(m1, st)
            p['evaluations'] += 1
            if d1 is not None:
                isolated = True
                case = {'mode': 'product', 'product': product, 'elems': [e], 'base': base + k, 'style': styles.style_dict(st)}
                p['violations'].append(violation(PID, 'model-differs' if o1 == 'differs' else 'wellformed-rejected', case,
                                                 observed=d1, detail=f'{product} {d1[0]} | text={t1[:300]!r}'))
        if not isolated:
            case = {'mode': 'product', 'product': product, 'elems': elems, 'base': base, 'style': styles.style_dict(st)}
            p['violations'].append(violation(PID, 'model-differs' if outcome == 'differs' else 'wellformed-rejected', case,
                                             observed=diffs, detail=f'{product} (only when packed) {diffs[0]}'))


def units(tier, seed):
    us = []
    for product, (gen, mk, dims, n) in PRODUCTS.items():
        elems = gen(tier)
        packs = pack_misc(elems, n) if product == 'misc' else [elems[k:k + n] for k in range(0, len(elems), n)]
        base = 0
        chunk = []
        for pk in packs:
            chunk.append((base, pk))
            base += len(pk)
            if len(chunk) == 6:
                us.append(('product', product, chunk, seed))
                chunk = []
        if chunk:
            us.append(('product', product, chunk, seed))
    cases = [(pos, name) for pos in POSITIONS for name in IDENTS if (pos, name) not in IDENT_EXCLUDED]
    for k in range(0, len(cases), 40):
        us.append(('idents', cases[k:k + 40]))
    depth = 3 if tier == 'quick' else 4
    for first in DECLS:
        us.append(('bfs', first, depth))
    return us


def work(unit):
    p = new_part()
    if unit[0] == 'product':
        _, product, chunk, seed = unit
        dims = PRODUCTS[product][2]
        sl = sub_styles(seed, dims)
        for base, elems in chunk:
            check_pack(p, product, elems, base, sl)
            for e in elems:
                p['nontrivial'].add(digest([product, e]))
            if len(p['samples']) < 1:
                p['samples'].append({'product': product, 'element': elems[0], 'styles': len(sl)})
    elif unit[0] == 'idents':
        for pos, name in unit[1]:
            m = ident_model(pos, name)
            for st in IDENT_STYLES:
                if st.quote == 'bare' and (pos, name.lower()) in BARE_EXCLUDED:
                    continue
                diffs, outcome, text = parse_and_diff(m, st)
                p['evaluations'] += 1
                p['outcomes'][f'ident/{outcome}'] += 1
                if diffs is not None:
                    case = {'mode': 'ident', 'pos': pos, 'name': name, 'style': styles.style_dict(st)}
                    p['violations'].append(violation(PID, 'model-differs' if outcome == 'differs' else 'wellformed-rejected', case,
                                                     observed=diffs, detail=f'identifier {name!r} at {pos}: {diffs[0]} | {text[:200]!r}'))
            p['nontrivial'].add(digest(['ident', pos, name]))
        p['samples'].append({'ident_position': unit[1][0][0], 'name': unit[1][0][1]})
    else:
        _, first, depth = unit
        frontier = [(first,)]
        p['states'] += 1
        while frontier:
            nxt = []
            for seq in frontier:
                m, order, ok = state_model(seq)
                if ok:
                    p['traces'] += 1
                    for st in BFS_STYLES:
                        diffs, outcome, text = parse_and_diff(m, st, order)
                        p['evaluations'] += 1
                        p['outcomes'][f'bfs/{outcome}'] += 1
                        if diffs is not None:
                            case = {'mode': 'bfs', 'seq': list(seq), 'style': styles.style_dict(st)}
                            p['violations'].append(violation(PID, 'model-differs' if outcome == 'differs' else 'wellformed-rejected', case,
                                                             observed=diffs, detail=f'state {list(seq)}: {diffs[0]}'))
                    p['nontrivial'].add(digest(['bfs', seq]))
                else:
                    p['outcomes']['bfs/not-wellformed(skipped)'] += 1
                if len(seq) < depth:
                    for name in enabled(seq):
                        nxt.append(seq + (name,))
                        p['transitions'] += 1
                        p['states'] += 1
            frontier = nxt
        p['samples'].append({'bfs_first': first, 'example_state': list(seq)})
    return p


def replay(case):
    p = new_part()
    st = styles.from_dict(case['style'])
    if case['mode'] == 'product':
        check_pack(p, case['product'], case['elems'], case['base'], [st])
    elif case['mode'] == 'ident':
        m = ident_model(case['pos'], case['name'])
        diffs, outcome, text = parse_and_diff(m, st)
        if diffs is not None:
            p['violations'].append(violation(PID, 'model-differs' if outcome == 'differs' else 'wellformed-rejected', case, observed=diffs,
                                             detail=f'{diffs[0]} | {text[:300]!r}'))
    else:
        m, order, ok = state_model(tuple(case['seq']))
        diffs, outcome, text = parse_and_diff(m, st, order)
        if diffs is not None:
            p['violations'].append(violation(PID, 'model-differs' if outcome == 'differs' else 'wellformed-rejected', case, observed=diffs,
                                             detail=f'{diffs[0]} | {text[:300]!r}'))
    return p['violations']
