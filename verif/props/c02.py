"""C02 — DBML round trip and render fixpoint.

For every database d0 of the C01 spaces (API-built through the public classes *and* obtained by parsing
the harness-written document), with comments removed (comments are C14's subject):

    t1 = d0.dbml; d1 = parse(t1); t2 = d1.dbml; d2 = parse(t2); t3 = d2.dbml
    require canon(d1) == canon(d0), t2 == t1 (byte-identical), canon(d2) == canon(d1), t3 == t2.

The oracle is the database itself (no hand-written expectation).
"""
from __future__ import annotations

import itertools

from .. import asm as A
from .. import builder, canon, styles, writer
from ..runner import new_part, violation, digest, exc_info
from . import c01

PID = 'C02'
LEVEL = 'exploration'
RULE = ('every element of the C01 feature products (packed), every identifier shape at every name-bearing position '
        '(and all pairs of positions in the thorough tier), and every well-formed state of the C01 derivation BFS; each taken '
        'through the API-built and the parsed route and through three render/parse cycles; distinct_nontrivial = distinct '
        '(route, abstract element/state) digests whose first rendering was re-parsed')
ASSUMPTIONS = ['comments are stripped from the models (C14 decides comment round trips)',
               'API-built databases are inside the DBML-expressible value domain of DESIGN §2 (note texts in stored form, '
               'identifiers without double quote/newline, inline refs single-column and not <>)']


def bounds(tier):
    return {'bfs_depth': 3 if tier == 'quick' else 4, 'ident_pairs': tier != 'quick', 'cycles': 3}


def strip_model_comments(m):
    m = A.clone(m)

    def rec(x):
        if isinstance(x, dict):
            if 'comment' in x:
                x['comment'] = None
            for v in x.values():
                rec(v)
        elif isinstance(x, list):
            for v in x:
                rec(v)
    rec(m)
    return m


def roundtrip(db0, allow_properties):
    """-> (problem description or None, kind, texts)"""
    from pydbml import PyDBML
    c0 = canon.partition_refs(canon.canon(db0, comments=False))
    try:
        t1 = db0.dbml
    except Exception as e:
        return f'rendering raised {type(e).__name__}: {e}', 'render-raised', []
    try:
        d1 = PyDBML(t1, allow_properties=allow_properties)
    except Exception as e:
        return f're-parse of .dbml raised {type(e).__name__}: {str(e)[:160]}', 'reparse-raised', [t1]
    c1 = canon.partition_refs(canon.canon(d1, comments=False))
    if not canon.same(c1, c0):
        items = canon.diff_items(c1, c0)
        return 'content changed by render+parse: ' + '; '.join(f'{p}: {a!r} != {b!r}' for p, a, b in items[:3]), 'content-changed', [t1, items]
    t2 = d1.dbml
    if t2 != t1:
        return 'second rendering differs from the first', 'not-a-fixpoint', [t1, t2]
    try:
        d2 = PyDBML(t2, allow_properties=allow_properties)
        t3 = d2.dbml
    except Exception as e:
        return f'second cycle raised {type(e).__name__}: {e}', 'reparse-raised', [t1, t2]
    if not canon.same(canon.partition_refs(canon.canon(d2, comments=False)), c1) or t3 != t2:
        return 'drift in the third cycle', 'drift', [t1, t2, t3]
    return None, 'ok', [t1]


def db_for(m, route, st=None, order=None):
    from pydbml import PyDBML
    ap = bool(m.get('allow_properties'))
    if route == 'api':
        return builder.build(writer.expected(m)), ap
    text = writer.write(m, st or writer.Style(), order)
    return PyDBML(text, allow_properties=ap), ap


def check_model(p, m, route, case, label, order=None):
    try:
        db0, ap = db_for(m, route, order=order)
    except Exception as e:
        # the document/model could not be obtained at all: C01's business (parse) or a builder problem
        p['outcomes'][f'{label}/{route}/source-unavailable:{type(e).__name__}'] += 1
        return 'source-unavailable'
    prob, kind, texts = roundtrip(db0, ap)
    p['evaluations'] += 1
    p['outcomes'][f'{label}/{route}/{kind}'] += 1
    if prob is not None:
        obs = texts[-1] if texts else None
        if kind == 'content-changed' and isinstance(obs, list) and len(obs) > 1:
            # one violation per differing item: an element may combine several independent causes (a falsy default *and* a
            # multi-line note), and each recorded finding explains items of its own shape only
            for item in obs:
                p['violations'].append(violation(PID, kind, dict(case, route=route, item=item[0]), observed=[item],
                                                 detail=f'content changed by render+parse: {item[0]}: {item[1]!r} != {item[2]!r}'))
        else:
            p['violations'].append(violation(PID, kind, dict(case, route=route), observed=obs if isinstance(obs, list) else (obs or '')[:1500],
                                             detail=prob))
    return kind


def check_pack(p, product, elems, base, route):
    gen, mk, dims, _ = c01.PRODUCTS[product]
    m = strip_model_comments(mk(elems, base))
    before = len(p['violations'])
    kind = check_model(p, m, route, {'mode': 'product', 'product': product, 'elems': elems, 'base': base}, product)
    if kind in ('ok', 'source-unavailable'):
        return
    # isolate single elements
    packed = p['violations'][before:]
    del p['violations'][before:]
    found = False
    for k, e in enumerate(elems):
        m1 = strip_model_comments(mk([e], base + k))
        b2 = len(p['violations'])
        k1 = check_model(p, m1, route, {'mode': 'product', 'product': product, 'elems': [e], 'base': base + k}, product)
        if k1 not in ('ok', 'source-unavailable'):
            found = True
    if not found:
        p['violations'].extend(packed)


def units(tier, seed):
    us = []
    for product, (gen, mk, dims, n) in c01.PRODUCTS.items():
        elems = gen(tier)
        packs = c01.pack_misc(elems, n) if product == 'misc' else [elems[k:k + n] for k in range(0, len(elems), n)]
        base, chunk = 0, []
        for pk in packs:
            chunk.append((base, pk))
            base += len(pk)
            if len(chunk) == 8:
                us.append(('product', product, chunk))
                chunk = []
        if chunk:
            us.append(('product', product, chunk))
    cases = [(pos, name) for pos in c01.POSITIONS for name in c01.IDENTS if (pos, name) not in c01.IDENT_EXCLUDED]
    for k in range(0, len(cases), 30):
        us.append(('idents', cases[k:k + 30]))
    if tier != 'quick':
        pairs = [(a, b) for a, b in itertools.combinations(c01.POSITIONS, 2)]
        names = ['a b', "a'b", 'table', 'é']
        for k in range(0, len(pairs), 6):
            us.append(('identpairs', pairs[k:k + 6], names))
    depth = 3 if tier == 'quick' else 4
    for first in c01.DECLS:
        us.append(('bfs', first, depth))
    return us


def _apply_two(pa, na, pb, nb):
    return c01.apply_ident(c01.apply_ident(c01.ident_base(), pa, na), pb, nb)


def work(unit):
    p = new_part()
    if unit[0] == 'product':
        _, product, chunk = unit
        for base, elems in chunk:
            for route in ('api', 'parsed'):
                check_pack(p, product, elems, base, route)
                for e in elems:
                    p['nontrivial'].add(digest([route, product, e]))
        p['samples'].append({'product': product, 'element': chunk[0][1][0]})
    elif unit[0] == 'idents':
        for pos, name in unit[1]:
            m = strip_model_comments(c01.ident_model(pos, name))
            for route in ('api', 'parsed'):
                check_model(p, m, route, {'mode': 'ident', 'pos': pos, 'name': name}, 'ident')
                p['nontrivial'].add(digest([route, pos, name]))
        p['samples'].append({'ident_position': unit[1][0][0], 'name': unit[1][0][1]})
    elif unit[0] == 'identpairs':
        _, pairs, names = unit
        for pa, pb in pairs:
            for na in names:
                for nb in names:
                    m = strip_model_comments(_apply_two(pa, na, pb, nb + '2'))
                    check_model(p, m, 'api', {'mode': 'identpair', 'pa': pa, 'na': na, 'pb': pb, 'nb': nb + '2'}, 'identpair')
                    p['nontrivial'].add(digest([pa, na, pb, nb]))
    else:
        _, first, depth = unit
        frontier = [(first,)]
        p['states'] += 1
        while frontier:
            nxt = []
            for seq in frontier:
                m, order, ok = c01.state_model(seq)
                if ok:
                    m = strip_model_comments(m)
                    for route in ('api', 'parsed'):
                        check_model(p, m, route, {'mode': 'bfs', 'seq': list(seq)}, 'bfs', order=order)
                    p['nontrivial'].add(digest(['bfs', seq]))
                    p['traces'] += 1
                if len(seq) < depth:
                    for name in c01.enabled(seq):
                        nxt.append(seq + (name,))
                        p['transitions'] += 1
                        p['states'] += 1
            frontier = nxt
        p['samples'].append({'bfs_state': list(seq)})
    return p


def replay(case):
    p = new_part()
    route = case['route']
    if case['mode'] == 'product':
        check_pack(p, case['product'], case['elems'], case['base'], route)
    elif case['mode'] == 'ident':
        check_model(p, strip_model_comments(c01.ident_model(case['pos'], case['name'])), route, case, 'ident')
    elif case['mode'] == 'identpair':
        check_model(p, strip_model_comments(_apply_two(case['pa'], case['na'], case['pb'], case['nb'])), route, case, 'identpair')
    else:
        m, order, ok = c01.state_model(tuple(case['seq']))
        check_model(p, strip_model_comments(m), route, case, 'bfs', order=order)
    return p['violations']
