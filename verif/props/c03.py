"""C03 — SQL DDL states exactly the model: types, tables, columns, keys, indexes, notes.

Exhaustive product of column flags x default kinds x type kinds x pk layouts x index shapes x table
schema x notes, two or more tables per database, API-built and parsed routes; `.sql` is read back by the
independent DDL reader (verif/ddl.py) and compared with the facts computed from the abstract model by the
rules of the statement (verif/sqlref.py).
"""
from __future__ import annotations

import itertools

from .. import asm as A
from .. import builder, ddl, sqlref, writer
from ..runner import new_part, violation, digest, exc_info

PID = 'C03'
LEVEL = 'exploration'
RULE = ('full product of column features (4 flags x default values x type kinds x note) on single-column and packed tables, '
        'pk layouts (none/single/composite 2,3/pk index/single+pk index/composite+pk index) x pk position x table schema x table note, '
        'index feature product (subject shape x unique x name x type x pk x schema), enum shapes; API-built and parsed routes; '
        'distinct_nontrivial = distinct abstract databases whose SQL was read back and compared fact by fact')
ASSUMPTIONS = ['verif/ddl.py reads SQL by lexical rules; string defaults are restricted to tokens it can delimit (raw text in this renderer)',
               'boolean DEFAULT spelling is compared case-insensitively; COMMENT ON literal may neutralise quotes by replacement or doubling',
               'identifiers contain no double quote (inexpressible in DBML)']

DEFAULTS = [['none'], ['int', 0], ['int', 1], ['int', 42], ['float', 0.0], ['float', 1.5], ['bool', True], ['bool', False],
            ['str', ''], ['str', 'x'], ['str', 'a b'], ['expr', 'now()'], ['expr', "f(a, 'b')"], ['expr', ''],
            ['expr', '(a + 1) * (b + 2)'], ['expr', '(x)']]
TYPES = [['str', 'int'], ['str', 'varchar(255)'], ['str', 'decimal(10, 2)'], ['str', 'int[]'], ['enum', 'public', 'e'],
         ['enum', 's', 'e2'], ['str', 'character varying']]
SCHEMAS = ['public', 's', 'my schema']
PK_LAYOUTS = ['none', 'single', 'comp2', 'comp3', 'pkindex', 'single+pkindex', 'comp2+pkindex']
INDEX_TYPES = [None, 'btree', 'hash', 'gin', 'gist', 'brin', 'spgist']
SUBJECTS = [[['col', 'id']], [['col', 'id'], ['col', 'x y']], [['expr', 'id*2']], [['expr', 'lower(id)'], ['col', 'id']],
            [['col', 'x y']], [['col', 'x y'], ['col', 'id'], ['expr', 'a,b']], [['expr', '(id) + (id)']], [['col', 'id'], ['expr', '(id)']]]


def bounds(tier):
    return {'column_product': len(DEFAULTS) * len(TYPES) * 16 * 2, 'pk_layouts': len(PK_LAYOUTS), 'schemas': len(SCHEMAS),
            'pack_columns': 16, 'routes': ['api', 'parsed'] if tier != 'quick' else ['api', 'parsed (every 4th database)']}


def enums():
    return [A.enum('e', ['a', 'b c', 'd.e']), A.enum('e2', ['z'], schema='s')]


def gen_columns():
    out = []
    for (pk, uq, nn, ai), d, ty, note in itertools.product(itertools.product([False, True], repeat=4), DEFAULTS, TYPES,
                                                          ('', 'col note', "it's")):
        if note == "it's" and (d[0] != 'none' or ty[1] != 'int'):
            continue
        out.append(A.col('c', ty, pk=pk, unique=uq, not_null=nn, autoinc=ai, default=d, note=note))
    return out


def single_tables_model(cols, base, schema):
    """one table per column (so the pk flag is a single-column pk), several tables per database"""
    ts = []
    for k, c in enumerate(cols):
        c = dict(c, name=f'c{k}')
        ts.append(A.table(f't{base + k}', [c], schema=schema))
    return A.model(tables=ts, enums=enums())


def packed_model(cols, layout, pos, schema, note):
    """one table with the given non-pk columns and the pk layout's own columns at first / middle / last"""
    body = [dict(c, name=f'c{k}', pk=False) for k, c in enumerate(cols)]
    npk = {'none': 0, 'single': 1, 'comp2': 2, 'comp3': 3, 'pkindex': 0, 'single+pkindex': 1, 'comp2+pkindex': 2}[layout]
    pkcols = [A.col(f'p{k}', 'int', pk=True) for k in range(npk)]
    if pos == 'first':
        allc = pkcols + body
    elif pos == 'last':
        allc = body + pkcols
    else:
        h = len(body) // 2
        allc = body[:h] + pkcols[:1] + body[h:] + pkcols[1:]
    idx = []
    if 'pkindex' in layout:
        idx.append(A.index([body[0]['name'], body[1]['name']], pk=True))
    t = A.table('t', allc, schema=schema, note=note, indexes=idx)
    # the second table repeats the first one's note text (so a shared Note object, see builder.share_notes, would show)
    other = A.table('other', [A.col('id', pk=True), A.col('v', 'text', note='other v')], schema='s' if schema == 'public' else 'public',
                    indexes=[A.index(['v'], name='ov')], note=note)
    return A.model(tables=[t, other], enums=enums())


def gen_indexes():
    out = []
    for subs, uq, name, ty, pk, note in itertools.product(SUBJECTS, (False, True), (None, 'ix', 'my index'), INDEX_TYPES, (False, True),
                                                         ('', 'inote')):
        if note and (ty not in (None, 'hash') or name == 'my index'):
            continue
        out.append(A.index(subs, name=name, unique=uq, type_=ty, pk=pk, note=note))
    return out


def indexes_model(idxs, schema):
    t = A.table('t', [A.col('id'), A.col('x y', 'varchar')], schema=schema, indexes=[dict(i) for i in idxs])
    u = A.table('t', [A.col('id')], schema='zz', indexes=[A.index(['id'], unique=True)])   # same bare name, other schema
    return A.model(tables=[t, u])


def gen_enum_models():
    out = []
    for schema, n, names in itertools.product(('public', 's', 'my schema'), (1, 2, 3), (['a', 'b', 'c'], ['x y', 'p.q', 'é'], ['1', 'Z', '-'], ["it's", "'", "a''b"])):
        e1 = A.enum('e', names[:n], schema=schema)
        e2 = A.enum('e', ['k'], schema='other')
        t = A.table('t', [A.col('a', ['enum', schema, 'e']), A.col('b', ['enum', 'other', 'e'])])
        for order in ((e1, e2), (e2, e1)):
            out.append(A.model(tables=[t], enums=list(order)))
    return out


QUOTE_NAMES = ['a"b', '"', 'x""y']
QUOTE_POSITIONS = ['table', 'schema', 'column', 'enum', 'enum_schema', 'index_name']


def quote_name_model(pos, name):
    """identifiers that contain a double quote: inexpressible in DBML, but a database built through the classes may carry them"""
    e = A.enum('e', ['i'])
    t = A.table('t', [A.col('id', 'int', note='n'), A.col('v', ['enum', 'public', 'e'])], schema='s', note='tn',
                indexes=[A.index(['id'], name='ix'), A.index(['id', 'v'], pk=True)])
    if pos == 'table':
        t['name'] = name
    elif pos == 'schema':
        t['schema'] = name
    elif pos == 'column':
        t['columns'][0]['name'] = name
        for i in t['indexes']:
            i['subjects'][0][1] = name
    elif pos == 'enum':
        e['name'] = name
    elif pos == 'enum_schema':
        e['schema'] = name
    elif pos == 'index_name':
        t['indexes'][0]['name'] = name
    t['columns'][1]['type'] = ['enum', e['schema'], e['name']]
    return A.model(tables=[t], enums=[e])


def check_db(p, m, route, case, label):
    from pydbml import PyDBML
    try:
        if route == 'api':
            # every second database is built with one Note object per distinct text, passed to every element that bears that text
            # (chosen by a digest of the case so that it is not aligned with any product dimension)
            db = builder.build(m, share_notes=int(digest(case), 16) % 2 == 0)
        else:
            db = PyDBML(writer.write(m))
    except Exception as e:
        p['outcomes'][f'{label}/{route}/source-unavailable:{type(e).__name__}'] += 1
        return
    p['evaluations'] += 1
    try:
        sql = db.sql
    except Exception as e:
        p['outcomes'][f'{label}/{route}/render-raised'] += 1
        p['violations'].append(violation(PID, 'render-raised', dict(case, route=route), observed=exc_info(e), detail=f'{type(e).__name__}: {e}'))
        return
    try:
        stmts = ddl.read(sql)
    except ddl.DDLError as e:
        p['outcomes'][f'{label}/{route}/unreadable'] += 1
        p['violations'].append(violation(PID, 'unreadable-sql', dict(case, route=route), observed=sql[:1500], detail=f'DDL reader: {e}'))
        return
    probs = sqlref.compare_c03(m, stmts)
    p['outcomes'][f'{label}/{route}/' + ('exact' if not probs else 'differs')] += 1
    if probs:
        p['violations'].append(violation(PID, 'sql-differs', dict(case, route=route), observed=probs[:6], detail=probs[0][:400]))
        return
    # "for every database": also the one this database becomes after it has been rendered once and then edited in place
    # (pk flags flipped so that the pk layout changes class, a table moved to another schema, a column renamed and re-typed)
    m2 = asm_clone(m)
    t0, d0 = m2['tables'][0], db.tables[0]
    if len(t0['columns']) >= 2:
        for k in (0, 1):
            t0['columns'][k]['pk'] = not t0['columns'][k]['pk']
            d0.columns[k].pk = t0['columns'][k]['pk']
        t0['columns'][-1]['name'] = 'renamed col'
        d0.columns[-1].name = 'renamed col'
        for i in t0['indexes']:
            for sj in i['subjects']:
                if sj[0] == 'col' and sj[1] not in [c['name'] for c in t0['columns']]:
                    sj[1] = 'renamed col'
    t0['schema'] = 'moved'
    d0.schema = 'moved'
    try:
        stmts2 = ddl.read(db.sql)
        probs2 = sqlref.compare_c03(m2, stmts2)
    except Exception as e:
        probs2 = [f'after in-place edits: {type(e).__name__}: {e}']
    p['evaluations'] += 1
    p['outcomes'][f'{label}/{route}/after-edit/' + ('exact' if not probs2 else 'differs')] += 1
    if probs2:
        p['violations'].append(violation(PID, 'sql-differs-after-edit', dict(case, route=route), observed=probs2[:6],
                                         detail='after rendering once, flipping pk of the first two columns, renaming the last column and moving the table to schema "moved": ' + probs2[0][:300]))


def asm_clone(m):
    return A.clone(m)


def model_of(case):
    cols = gen_columns()
    mode = case['mode']
    if mode == 'single':
        return single_tables_model([cols[i] for i in case['cols']], case['base'], case['schema'])
    if mode == 'packed':
        return packed_model([cols[i] for i in case['cols']], case['layout'], case['pos'], case['schema'], case['note'])
    if mode == 'indexes':
        idxs = gen_indexes()
        return indexes_model([idxs[i] for i in case['idx']], case['schema'])
    if mode == 'apinames':
        return quote_name_model(case['pos'], case['name'])
    return gen_enum_models()[case['k']]


def units(tier, seed):
    ncols = len(gen_columns())
    us = []
    ids = list(range(ncols))
    for k in range(0, ncols, 160):
        us.append(('single', ids[k:k + 160], tier, seed))
    for k in range(0, ncols, 128):
        us.append(('packed', ids[k:k + 128], tier, seed))
    nidx = len(gen_indexes())
    for k in range(0, nidx, 120):
        us.append(('indexes', list(range(k, min(nidx, k + 120))), tier, seed))
    us.append(('enums', None, tier, seed))
    us.append(('apinames', None, tier, seed))
    return us


def routes_for(tier, n):
    if tier == 'quick':
        return ('api', 'parsed') if n % 4 == 0 else ('api',)
    return ('api', 'parsed')


def work(unit):
    mode, ids, tier, seed = unit
    p = new_part()
    n = 0
    if mode == 'single':
        for k in range(0, len(ids), 10):
            chunk = ids[k:k + 10]
            for schema in SCHEMAS:
                case = {'mode': 'single', 'cols': chunk, 'base': k, 'schema': schema}
                m = model_of(case)
                for route in routes_for(tier, n + seed):
                    check_db(p, m, route, case, 'single')
                n += 1
                p['nontrivial'].add(digest(case))
        p['samples'].append(case)
    elif mode == 'packed':
        for k in range(0, len(ids), 16):
            chunk = ids[k:k + 16]
            if len(chunk) < 2:
                continue
            for layout, pos, schema, note in itertools.product(PK_LAYOUTS, ('first', 'middle', 'last'), SCHEMAS, ('', 'table note')):
                if tier == 'quick' and pos == 'middle' and schema == 'my schema':
                    continue
                case = {'mode': 'packed', 'cols': chunk, 'layout': layout, 'pos': pos, 'schema': schema, 'note': note}
                m = model_of(case)
                for route in routes_for(tier, n + seed):
                    check_db(p, m, route, case, 'packed')
                n += 1
                p['nontrivial'].add(digest(case))
        p['samples'].append(case)
    elif mode == 'indexes':
        for k in range(0, len(ids), 8):
            chunk = ids[k:k + 8]
            for schema in SCHEMAS:
                case = {'mode': 'indexes', 'idx': chunk, 'schema': schema}
                m = model_of(case)
                for route in routes_for(tier, n + seed):
                    check_db(p, m, route, case, 'indexes')
                n += 1
                p['nontrivial'].add(digest(case))
        p['samples'].append(case)
    elif mode == 'apinames':
        for pos in QUOTE_POSITIONS:
            for name in QUOTE_NAMES:
                case = {'mode': 'apinames', 'pos': pos, 'name': name}
                check_db(p, model_of(case), 'api', case, 'apinames')
                p['nontrivial'].add(digest(case))
        p['samples'].append(case)
    else:
        for k, m in enumerate(gen_enum_models()):
            case = {'mode': 'enums', 'k': k}
            for route in ('api', 'parsed'):
                check_db(p, m, route, case, 'enums')
            p['nontrivial'].add(digest(case))
        p['samples'].append({'mode': 'enums', 'model': m['enums']})
    return p


def replay(case):
    p = new_part()
    check_db(p, model_of(case), case['route'], {k: v for k, v in case.items() if k != 'route'}, case['mode'])
    return p['violations']
