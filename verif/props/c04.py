"""C04 — every relationship becomes exactly one correctly directed FOREIGN KEY in SQL.

All reference sets of size 1 (full feature product), size 2 (ordered pairs over a reduced feature product)
and, in the thorough tier, size 3 over a 3-table universe with self-references and a non-public schema.
Oracle: the multiset of FOREIGN KEY facts read from `.sql` by the independent DDL reader equals the multiset
computed from the reference list by the rules of the statement; many-to-many join tables are matched
structurally (verif/sqlref.py).
"""
from __future__ import annotations

import itertools

from .. import asm as A
from .. import builder, ddl, sqlref, writer
from ..runner import new_part, violation, digest, exc_info

PID = 'C04'
LEVEL = 'exploration'
RULE = ('reference sets over tables a(id int, x varchar), b(id int, x varchar), s.a(id uuid, x text): every single reference of '
        'kind{>,<,-,<>} x inline x arity{1,2} x 9 (left,right) table pairs x name x 6x6 actions; every ordered pair over the reduced '
        'product (actions fixed); thorough adds triples over a core set; API-built, plus the parsed route where DBML can express the reference; '
        'distinct_nontrivial = distinct reference sets whose SQL was read back and compared')
ASSUMPTIONS = ['verif/ddl.py recognises FOREIGN KEY clauses inside CREATE TABLE and ALTER TABLE ... ADD [CONSTRAINT] FOREIGN KEY',
               'join-table column names are the renderer\'s choice; their number, types, NOT NULL, the primary key over all of them and the two '
               'foreign keys back are what the statement fixes',
               'a reference set the container rejects as duplicate is outside the space (C09)']

TABLES = [('public', 'a'), ('public', 'b'), ('s', 'a')]   # s.a collides with public.a by bare name
ACTIONS = [None, 'cascade', 'restrict', 'set null', 'set default', 'no action']
KINDS = ['>', '<', '-', '<>']


def bounds(tier):
    return {'tables': 3, 'max_refs_per_database': 2 if tier == 'quick' else 3, 'single_refs': 'full product',
            'pair_refs': 'reduced product (actions fixed), all ordered pairs'}


def tables():
    return [A.table('a', [A.col('id', 'int'), A.col('x', 'varchar')]),
            A.table('b', [A.col('id', 'int'), A.col('x', 'varchar')]),
            A.table('a', [A.col('id', 'uuid'), A.col('x', 'text')], schema='s')]


def mkref(kind, inline, arity, left, right, name, ou, od, swap=False):
    ls, lt = TABLES[left]
    rs, rt = TABLES[right]
    lc = ['id', 'x'][:arity]
    rc = ['id', 'x'][:arity]
    if swap and arity == 2:
        rc = ['x', 'id']      # pairing (id->x, x->id): order must be kept on both sides
    if left == right and arity == 1:
        rc = ['x']            # self reference between two different columns
    return A.ref(kind, [[ls, lt, c] for c in lc], [[rs, rt, c] for c in rc], name=name, on_update=ou, on_delete=od, inline=inline)


def singles():
    out = []
    for kind, inline, arity, left, right, name, ou, od in itertools.product(KINDS, (False, True), (1, 2), range(3), range(3),
                                                                         (None, 'fk n'), ACTIONS, ACTIONS):
        out.append((kind, inline, arity, left, right, name, ou, od, False))
    for kind, inline, arity, left, right, name in itertools.product(KINDS, (False, True), (1, 2), range(3), range(3), ('fk_{x}', 'fk }{', "it's")):
        out.append((kind, inline, arity, left, right, name, None, 'cascade', False))
    for kind, inline, left, right in itertools.product(KINDS, (False, True), range(3), range(3)):
        if left != right:
            out.append((kind, inline, 2, left, right, None, None, 'cascade', True))
    return out


def reduced():
    out = []
    for kind, inline, arity, left, right, name in itertools.product(KINDS, (False, True), (1, 2), range(3), range(3), (None, 'fk n')):
        out.append((kind, inline, arity, left, right, name, 'cascade' if name else None, None, False))
    return out


def core():
    out = []
    for kind, inline, (left, right) in itertools.product(KINDS, (False, True), ((0, 1), (1, 0), (0, 0), (2, 0), (0, 2))):
        out.append((kind, inline, 1, left, right, None, None, None, False))
    return out


def expressible(r):
    # DBML cannot write an inline composite or an inline <> reference, nor a name / actions on an inline one
    return not (r['inline'] and (len(r['col1']) > 1 or r['type'] == '<>' or r['name'] or r['on_update'] or r['on_delete']))


def check_set(p, specs, label, parsed=False):
    from pydbml import PyDBML
    refs = [mkref(*s) for s in specs]
    m = A.model(tables=tables(), refs=refs)
    case = {'refs': [list(s) for s in specs]}
    routes = ['api']
    if parsed and all(expressible(r) for r in refs):
        routes.append('parsed')
    for route in routes:
        try:
            db = builder.build(m) if route == 'api' else PyDBML(writer.write(m))
        except Exception as e:
            p['outcomes'][f'{label}/{route}/rejected-by-container:{type(e).__name__}'] += 1
            continue
        p['evaluations'] += 1
        try:
            sql = db.sql
        except Exception as e:
            p['outcomes'][f'{label}/{route}/render-raised'] += 1
            p['violations'].append(violation(PID, 'render-raised', dict(case, route=route), observed=exc_info(e), detail=f'{type(e).__name__}: {e}'))
            continue
        try:
            stmts = ddl.read(sql)
        except ddl.DDLError as e:
            p['outcomes'][f'{label}/{route}/unreadable'] += 1
            p['violations'].append(violation(PID, 'unreadable-sql', dict(case, route=route), observed=sql[:1500], detail=f'DDL reader: {e}'))
            continue
        probs = sqlref.compare_c04(m, stmts)
        # each element's own .sql must say the same as the database text (element agreement for refs)
        p['outcomes'][f'{label}/{route}/' + ('exact' if not probs else 'differs')] += 1
        if probs:
            kind = 'join-columns-collide' if all('COLLIDE' in x for x in probs) else 'fk-differs'
            p['violations'].append(violation(PID, kind, dict(case, route=route), observed=probs[:4], detail=probs[0][:500]))
            continue
        if route == 'api' and label == 'single':
            # the same database after it was rendered once and then edited in place: the types of table b's columns change and
            # table b moves to schema "moved" (join tables are typed like the referenced columns and live in the left table's schema)
            m2 = A.clone(m)
            tb = m2['tables'][1]
            for c, dc in zip(tb['columns'], db.tables[1].columns):
                c['type'] = ['str', 'bigint']
                dc.type = 'bigint'
            old = (tb['schema'], tb['name'])
            tb['schema'] = 'moved'
            db.tables[1].schema = 'moved'
            for r in m2['refs']:
                for ep in r['col1'] + r['col2']:
                    if (ep[0], ep[1]) == old:
                        ep[0] = 'moved'
            try:
                probs2 = sqlref.compare_c04(m2, ddl.read(db.sql))
            except Exception as e:
                probs2 = [f'{type(e).__name__}: {e}']
            p['evaluations'] += 1
            probs2 = [x for x in probs2 if 'COLLIDE' not in x]
            if probs2:
                p['violations'].append(violation(PID, 'fk-differs-after-edit', dict(case, route=route), observed=probs2[:4],
                                                 detail='after rendering once, re-typing the columns of table b and moving it to schema "moved": ' + probs2[0][:400]))
                continue
            # ... and after the kind of the (already rendered) reference is edited to each other kind in turn
            for newkind in KINDS:
                if newkind == m2['refs'][0]['type']:
                    continue
                m2['refs'][0]['type'] = newkind
                db.refs[0].type = newkind
                try:
                    probs3 = [x for x in sqlref.compare_c04(m2, ddl.read(db.sql)) if 'COLLIDE' not in x]
                except Exception as e:
                    probs3 = [f'{type(e).__name__}: {e}']
                p['evaluations'] += 1
                if probs3:
                    p['violations'].append(violation(PID, 'fk-differs-after-edit', dict(case, route=route, kind_edited_to=newkind), observed=probs3[:4],
                                                     detail=f'after rendering and then editing the reference kind to {newkind!r}: ' + probs3[0][:400]))
                    break
    p['nontrivial'].add(digest(case))


def units(tier, seed):
    us = []
    s = singles()
    for k in range(0, len(s), 700):
        us.append(('single', k, min(len(s), k + 700), tier))
    r = reduced()
    for k in range(len(r)):
        us.append(('pairs', k, k + 1, tier))
    if tier != 'quick':
        c = core()
        for k in range(len(c)):
            us.append(('triples', k, k + 1, tier))
    return us


def work(unit):
    mode, lo, hi, tier = unit
    p = new_part()
    if mode == 'single':
        s = singles()
        for spec in s[lo:hi]:
            check_set(p, [spec], 'single', parsed=True)
        p['samples'].append({'single': list(s[lo])})
    elif mode == 'pairs':
        r = reduced()
        for a in r[lo:hi]:
            for b in r:
                check_set(p, [a, b], 'pair', parsed=(tier != 'quick'))
        p['samples'].append({'pair': [list(r[lo]), list(r[-1])]})
    else:
        c = core()
        for a in c[lo:hi]:
            for b in c:
                for d in c:
                    check_set(p, [a, b, d], 'triple')
        p['samples'].append({'triple_first': list(c[lo])})
    return p


def replay(case):
    p = new_part()
    check_set(p, [tuple(s) for s in case['refs']], 'replay', parsed=case.get('route') == 'parsed')
    return [v for v in p['violations'] if v['case'].get('route') == case.get('route')] or p['violations']
