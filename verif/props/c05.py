"""C05 — a parsed database is one consistently linked object graph.

An invariant evaluated in every well-formed state of the C01 derivation BFS (under every table-addressing
style), on the C01 reference product (all endpoint shapes x addressings x forms) and on the identifier
sweep.  All facts are checked with ``is`` (identity), never ``==``.
"""
from __future__ import annotations

from .. import asm as A
from .. import canon, styles, writer
from ..runner import new_part, violation, digest, exc_info
from . import c01

PID = 'C05'
LEVEL = 'model_checking'
RULE = ('states of the C01 derivation BFS x 3 addressing styles, reference product packs x pairwise style set, identifier sweep; '
        'in each parsed database every identity / back-pointer fact of the statement is evaluated; distinct_nontrivial = distinct '
        '(state or element pack) digests with at least one reference, index, group or enum-typed column')
ASSUMPTIONS = ['which object a fact speaks about is located positionally from the abstract model the document was written from',
               'the key-holder clause is observed through pydbml.renderer.sql.default.table.get_references_for_sql when importable']

ADDR_STYLES = [writer.Style(addr='full'), writer.Style(addr='bare', ref_form='block', quote='quoted'),
               writer.Style(addr='alias', case='upper', note_form='block', airy=True)]


def bounds(tier):
    return {'bfs_depth': 3 if tier == 'quick' else 4, 'addressing_styles': 3}


def link_problems(db, m):
    """-> list of strings; m is the abstract model the document was written from (positions line up)."""
    from pydbml.classes import Column
    probs = []

    def bad(msg):
        probs.append(msg)
    if len(db.tables) != len(m['tables']) or len(db.refs) != len(m['refs']) or len(db.enums) != len(m['enums']) \
            or len(db.table_groups) != len(m['groups']):
        return ['element counts differ from the document (C01 failure), links not evaluated']
    tpos = {(t['schema'], t['name']): i for i, t in enumerate(m['tables'])}
    epos = {(e['schema'], e['name']): i for i, e in enumerate(m['enums'])}
    listed = list(db)
    for i, (t, mt) in enumerate(zip(db.tables, m['tables'])):
        nm = f"{mt['schema']}.{mt['name']}"
        if db[i] is not t:
            bad(f'db[{i}] is not db.tables[{i}]')
        if i >= len(listed) or listed[i] is not t:
            bad(f'iteration position {i} is not db.tables[{i}]')
        try:
            if db[nm] is not t:
                bad(f'db[{nm!r}] is not the table object in db.tables')
        except Exception as e:
            bad(f'db[{nm!r}] raised {type(e).__name__}')
        if mt['alias']:
            try:
                if db[mt['alias']] is not t:
                    bad(f"db[{mt['alias']!r}] (alias) is not the table object")
            except Exception as e:
                bad(f"db[{mt['alias']!r}] (alias) raised {type(e).__name__}")
        if t.database is not db:
            bad(f'table {nm}.database is not the database')
        if t.note.parent is not t:
            bad(f'table {nm}.note.parent is not the table')
        for j, c in enumerate(t.columns):
            if c.table is not t:
                bad(f'column {nm}.{c.name}.table is not its table')
            if c.note.parent is not c:
                bad(f'column {nm}.{c.name}.note.parent is not the column')
            if c.database is not db:
                bad(f'column {nm}.{c.name}.database is not the database')
            mty = mt['columns'][j]['type']
            if mty[0] == 'enum':
                k = epos.get((mty[1], mty[2]))
                if k is None or c.type is not db.enums[k]:
                    bad(f'column {nm}.{c.name}.type is not the declared Enum object {mty[1]}.{mty[2]}')
        for j, ix in enumerate(t.indexes):
            if ix.table is not t:
                bad(f'index {j} of {nm}: .table is not its table')
            if ix.note.parent is not ix:
                bad(f'index {j} of {nm}: note.parent is not the index')
            for k, (s, ms) in enumerate(zip(ix.subjects, mt['indexes'][j]['subjects'])):
                if ms[0] == 'col':
                    want = [c for c in t.columns if c.name == ms[1]]
                    if not want or s is not want[0]:
                        bad(f'index {j} of {nm}: subject {k} is not the table\'s own Column object')
    for i, (e, me) in enumerate(zip(db.enums, m['enums'])):
        if e.database is not db:
            bad(f'enum {i}.database is not the database')
        for it in e.items:
            if it.note.parent is not it:
                bad(f'enum item {it.name}.note.parent is not the item')
    for i, (g, mg) in enumerate(zip(db.table_groups, m['groups'])):
        if g.database is not db:
            bad(f'group {i}.database is not the database')
        for j, (tt, mi) in enumerate(zip(g.items, mg['items'])):
            k = tpos.get(tuple(mi))
            if k is None or tt is not db.tables[k]:
                bad(f'group {g.name} item {j} is not the Table object')
        if len(g.items) != len(mg['items']):
            bad(f'group {g.name} has {len(g.items)} items, declared {len(mg["items"])}')
        if mg['note'] and (g.note is None or g.note.parent is not g):
            bad(f'group {g.name}.note.parent is not the group')
        if g.note is not None and g.note.parent is not g:
            bad(f'group {g.name} has a note object (text {g.note.text!r}) whose parent is not the group')
    for n in db.sticky_notes:
        if n.database is not db:
            bad(f'sticky note {n.name}.database is not the database')
    if db.project is not None:
        if db.project.database is not db:
            bad('project.database is not the database')
        if db.project.note.parent is not db.project:
            bad('project.note.parent is not the project')
    for i, (r, mr) in enumerate(zip(db.refs, m['refs'])):
        if r.database is not db:
            bad(f'ref {i}.database is not the database')
        for side, mside in ((r.col1, mr['col1']), (r.col2, mr['col2'])):
            if len(side) != len(mside):
                bad(f'ref {i}: side length {len(side)} != {len(mside)}')
                continue
            for c, (s, tn, cn) in zip(side, mside):
                k = tpos.get((s, tn))
                if k is None:
                    bad(f'ref {i}: endpoint table {s}.{tn} unknown')
                    continue
                want = [x for x in db.tables[k].columns if x.name == cn]
                if not want or c is not want[0]:
                    bad(f'ref {i}: endpoint {s}.{tn}.{cn} is not the Column object held by that table')
    # get_refs: exactly the references whose left side is that table, order preserved
    for t in db.tables:
        try:
            got = t.get_refs()
        except Exception as e:
            bad(f'{t.name}.get_refs() raised {type(e).__name__}')
            continue
        want = [r for r in db.refs if r.col1 and r.col1[0].table is t]
        if len(got) != len(want) or any(a is not b for a, b in zip(got, want)):
            bad(f'{t.schema}.{t.name}.get_refs() is not the ordered list of refs whose left side is that table')
        for c in t.columns:
            try:
                gc = c.get_refs()
            except Exception as e:
                bad(f'{t.name}.{c.name}.get_refs() raised {type(e).__name__}')
                continue
            wc = [r for r in want if any(x is c for x in r.col1)]
            if len(gc) != len(wc) or any(a is not b for a, b in zip(gc, wc)):
                bad(f'{t.name}.{c.name}.get_refs() is not the refs starting at that column')
    # key holder: every non-<> reference belongs to exactly one table
    try:
        from pydbml.renderer.sql.default.table import get_references_for_sql
    except Exception:
        get_references_for_sql = None
    if get_references_for_sql is not None:
        owners = {id(r): [] for r in db.refs}
        for t in db.tables:
            try:
                for r in get_references_for_sql(t):
                    owners.setdefault(id(r), []).append(t)
            except Exception as e:
                bad(f'key-holder query raised {type(e).__name__} for {t.name}')
        for i, (r, mr) in enumerate(zip(db.refs, m['refs'])):
            if mr['type'] == '<>':
                if owners[id(r)]:
                    bad(f'ref {i} (<>) is assigned a key-holding table')
                continue
            holder_side = mr['col2'] if mr['type'] == '<' else mr['col1']
            k = tpos.get((holder_side[0][0], holder_side[0][1]))
            if len(owners[id(r)]) != 1 or k is None or owners[id(r)][0] is not db.tables[k]:
                bad(f'ref {i} ({mr["type"]}) is assigned to {len(owners[id(r)])} key-holding tables / the wrong one')
    return probs


def check(p, m, st, order, case, label):
    from pydbml import PyDBML
    text = writer.write(m, st, order)
    try:
        db = PyDBML(text, allow_properties=True) if m.get('allow_properties') else PyDBML(text)
    except Exception as e:
        p['outcomes'][f'{label}/parse-raised(C01 domain)'] += 1
        return
    p['evaluations'] += 1
    probs = link_problems(db, writer.expected(m))
    p['outcomes'][f'{label}/' + ('linked' if not probs else 'broken')] += 1
    if probs:
        p['violations'].append(violation(PID, 'link-broken', dict(case, style=styles.style_dict(st)), observed=probs[:8],
                                         detail='; '.join(probs[:3]) + f' | {text[:200]!r}'))


def interesting(m):
    return bool(m['refs'] or m['groups'] or any(t['indexes'] for t in m['tables'])
                or any(c['type'][0] == 'enum' for t in m['tables'] for c in t['columns']))


def units(tier, seed):
    us = []
    depth = 3 if tier == 'quick' else 4
    for first in c01.DECLS:
        us.append(('bfs', first, depth))
    refs = c01.gen_refs(tier)
    packs = [refs[k:k + 24] for k in range(0, len(refs), 24)]
    for k in range(0, len(packs), 4):
        us.append(('refs', k * 24, packs[k:k + 4], seed))
    cases = [(pos, name) for pos in c01.POSITIONS for name in c01.IDENTS
             if (pos, name) not in c01.IDENT_EXCLUDED]
    for k in range(0, len(cases), 60):
        us.append(('idents', cases[k:k + 60]))
    for prod in ('columns', 'indexes', 'misc', 'tables'):
        elems = c01.PRODUCTS[prod][0](tier)
        n = c01.PRODUCTS[prod][3]
        packs = c01.pack_misc(elems, n) if prod == 'misc' else [elems[k:k + n] for k in range(0, len(elems), n)]
        step = 12
        base = 0
        chunk = []
        for pk in packs:
            chunk.append((base, pk))
            base += len(pk)
            if len(chunk) == step:
                us.append(('product', prod, chunk))
                chunk = []
        if chunk:
            us.append(('product', prod, chunk))
    return us


def work(unit):
    p = new_part()
    if unit[0] == 'bfs':
        _, first, depth = unit
        frontier = [(first,)]
        p['states'] += 1
        while frontier:
            nxt = []
            for seq in frontier:
                m, order, ok = c01.state_model(seq)
                if ok:
                    p['traces'] += 1
                    for st in ADDR_STYLES:
                        check(p, m, st, order, {'mode': 'bfs', 'seq': list(seq)}, 'bfs')
                    if interesting(m):
                        p['nontrivial'].add(digest(['bfs', seq]))
                if len(seq) < depth:
                    for name in c01.enabled(seq):
                        nxt.append(seq + (name,))
                        p['transitions'] += 1
                        p['states'] += 1
            frontier = nxt
        p['samples'].append({'bfs_state': list(seq)})
    elif unit[0] == 'refs':
        _, base, packs, seed = unit
        sl = c01.sub_styles(seed, c01.REF_DIMS)
        for k, pk in enumerate(packs):
            m = c01.refs_model(pk, base + k * 24)
            for st in sl:
                check(p, m, st, None, {'mode': 'refs', 'elems': pk, 'base': base + k * 24}, 'refs')
            p['nontrivial'].add(digest(['refs', pk]))
        p['samples'].append({'ref': packs[0][0]})
    elif unit[0] == 'product':
        _, prod, chunk = unit
        mk = c01.PRODUCTS[prod][1]
        for base, elems in chunk:
            m = mk(elems, base)
            for st in ADDR_STYLES:
                check(p, m, st, None, {'mode': 'product', 'product': prod, 'elems': elems, 'base': base}, prod)
            if interesting(m):
                p['nontrivial'].add(digest([prod, elems]))
    else:
        for pos, name in unit[1]:
            m = c01.ident_model(pos, name)
            for st in c01.IDENT_STYLES:
                if st.quote == 'bare' and (pos, name.lower()) in c01.BARE_EXCLUDED:
                    continue
                check(p, m, st, None, {'mode': 'ident', 'pos': pos, 'name': name}, 'ident')
            p['nontrivial'].add(digest(['ident', pos, name]))
    return p


def replay(case):
    p = new_part()
    st = styles.from_dict(case['style'])
    if case['mode'] == 'bfs':
        m, order, ok = c01.state_model(tuple(case['seq']))
        check(p, m, st, order, case, 'bfs')
    elif case['mode'] == 'refs':
        check(p, c01.refs_model(case['elems'], case['base']), st, None, case, 'refs')
    elif case['mode'] == 'product':
        check(p, c01.PRODUCTS[case['product']][1](case['elems'], case['base']), st, None, case, case['product'])
    else:
        check(p, c01.ident_model(case['pos'], case['name']), st, None, case, 'ident')
    return p['violations']
