"""C06 — rule-breaking documents are rejected with the error belonging to the rule.

Fault enumeration: a well-formed base document (three tables with aliases, two of them sharing a bare name across schemas,
two enums, a named reference with an action, a group) in three element orders x every rule of the statement x every spelling
of the offending declaration x every position of that declaration among the top-level elements.  Exactly one rule is broken
per document; the control (the same document without the injected declaration) must parse.  Duplicate references are
generated separately as two copies x {inline, short, block} x {schema-qualified, bare, alias addressing} on each copy.
Oracle: the exception class the rule prescribes, and no Database returned.
"""
from __future__ import annotations

import itertools

from ..runner import new_part, violation, digest, exc_info

PID = 'C06'
LEVEL = 'fault_enumeration'
RULE = ('base document (3 orders) x rule x spelling x position of the offending declaration; duplicate references as form pair x addressing pair '
        'x kind x position; every document parsed by the real parser; distinct_nontrivial = distinct documents with exactly one broken rule')
ASSUMPTIONS = ['the two copies of a duplicated reference carry no comments (the statement\'s "identical" does not mention comments)',
               'identifiers are case-sensitive; a differently-cased name is a different name and not generated as a duplicate']

EXPECT = {'dup-table': 'DatabaseValidationError', 'dup-alias': 'DatabaseValidationError', 'alias-equals-key': 'DatabaseValidationError',
          'dup-enum': 'DatabaseValidationError', 'dup-group': 'DatabaseValidationError', 'twice-in-group': 'ValidationError',
          'dup-ref': 'DatabaseValidationError', 'no-columns': 'SyntaxError', 'missing-table': 'TableNotFoundError',
          'missing-column': 'ColumnNotFoundError'}


def bounds(tier):
    return {'base_orders': 3, 'positions': 'every boundary between top-level elements', 'dup_ref_forms': '3 x 3', 'dup_ref_addressing': '3 x 3'}


# ------------------------------------------------------------------------------------------------
# base document

def base_elements():
    return [
        ('Ta', 'Table a as aa {\n  id int [pk]\n  x varchar\n}\n'),
        ('Tb', 'Table public.b as bb {\n  id int\n  a_id int\n  a_x varchar\n}\n'),
        ('Tsa', 'Table s.a as sa {\n  id int\n  b_id int\n}\n'),
        ('E', 'Enum e {\n  x\n  y\n}\n'),
        ('Es', 'Enum s.e {\n  z\n}\n'),
        ('R', 'Ref r_ab: a.id < b.a_id [delete: cascade]\n'),
        ('G', 'TableGroup g {\n  a\n  sa\n}\n'),
    ]


def orders():
    b = base_elements()
    return [b, list(reversed(b)), b[4:] + b[:4]]


SPELL = {
    'a': ['a', 'public.a', '"a"', '"public"."a"', 'public."a"'],
    'b': ['b', 'public.b', '"b"'],
    'sa': ['s.a', '"s"."a"', 's."a"'],
}
ADDR = {   # how a reference / group can name each table
    'a': ['a', 'public.a', 'aa', '"a"', '"aa"'],
    'b': ['b', 'public.b', 'bb'],
    'sa': ['s.a', 'sa', '"s"."a"'],
}


def injections():
    """-> list of (rule, label, snippet)"""
    out = []
    for t in ('a', 'b', 'sa'):
        for sp in SPELL[t]:
            out.append(('dup-table', f'dup-table {sp}', f'Table {sp} {{\n  d1 int\n}}\n'))
    out.append(('dup-table', 'dup-table with alias and settings', 'Table a as other [headercolor: #fff] {\n  d1 int\n  Note: \'n\'\n}\n'))
    for al in ('aa', '"aa"', 'bb', 'sa'):
        out.append(('dup-alias', f'dup-alias {al}', f'Table zz as {al} {{\n  d1 int\n}}\n'))
        out.append(('dup-alias', f'dup-alias {al} in schema', f'Table q.zz as {al} {{\n  d1 int\n}}\n'))
    for key in ('"public.a"', '"public.b"', '"s.a"'):
        out.append(('alias-equals-key', f'alias-equals-key {key}', f'Table zz as {key} {{\n  d1 int\n}}\n'))
    for sp in ('e', 'public.e', '"e"', 's.e', '"s"."e"'):
        out.append(('dup-enum', f'dup-enum {sp}', f'Enum {sp} {{\n  q\n}}\n'))
    for sp, body in itertools.product(('g', '"g"'), ('  b\n', '', '  a\n  sa\n', "  Note: 'gn'\n")):
        out.append(('dup-group', f'dup-group {sp} {body!r}', f'TableGroup {sp} {{\n{body}}}\n'))
    for t in ('a', 'b', 'sa'):
        for s1, s2 in itertools.product(ADDR[t], repeat=2):
            out.append(('twice-in-group', f'twice-in-group {s1} {s2}', f'TableGroup h {{\n  {s1}\n  {s2}\n}}\n'))
            out.append(('twice-in-group', f'twice-in-group {s1} b {s2}', f'TableGroup h {{\n  {s1}\n  {"b" if t != "b" else "a"}\n  {s2}\n}}\n'))
    out += [('no-columns', 'no-columns plain', 'Table nocol {\n}\n'),
            ('no-columns', 'no-columns with note', "Table nocol {\n  Note: 'only a note'\n}\n"),
            ('no-columns', 'no-columns with settings', 'Table s.nocol as nc [headercolor: #fff] {\n}\n'),
            ('no-columns', 'no-columns with note block', "Table nocol {\n  Note {\n    'n'\n  }\n}\n")]
    # dangling tables
    for form in ('short', 'block'):
        def ref(body, form=form):
            return f'Ref: {body}\n' if form == 'short' else f'Ref {{\n  {body}\n}}\n'
        for body in ('a.id > nosuch.id', 'nosuch.id > a.id', 'a.id > s.b.id', 'zz.a.id > b.id', 'a.id - q.nosuch.id', 'b.id <> nosuch.id',
                     'a.(id, x) > nosuch.(id, x)', 'nope.id < sa.id', 'zz.aa.id > b.id', 'a.id < q.bb.id', 's.aa.id - b.id',
                     'a.id > q.a.id', 's.a.id > q.a.id', 'q.a.id < a.id', 'b.id > s.b.id', 'a.x - q.a.x'):
            out.append(('missing-table', f'missing-table {form} {body}', ref(body)))
        for body in ('a.id > b.nosuch', 'a.nosuch > b.id', 'a.(id, nosuch) > b.(id, a_id)', 'a.(id, x) > b.(id, nosuch)', 'sa.nosuch < bb.id',
                     's.a.x > a.id', 'public.a.b_id > b.id', 'a.id <> b.nosuch',
                     # sides of unequal length: the unknown column sits past the end of the shorter side
                     'a.(id, nosuch) > b.id', 'a.id > b.(id, nosuch)', 'a.(id, x, nosuch) < b.(id, a_id)'):
            out.append(('missing-column', f'missing-column {form} {body}', ref(body)))
    for target in ('nosuch.id', 's.b.id', 'q.a.id', 'nope.x', 'q.aa.id', 's.bb.id'):
        for kind in ('>', '<', '-'):
            out.append(('missing-table', f'missing-table inline {kind} {target}', f'Table t9 {{\n  c int [ref: {kind} {target}]\n}}\n'))
    for target in ('q.t9.c', 's.t9.c'):
        out.append(('missing-table', f'missing-table inline same name other schema {target}', f'Table t9 {{\n  c int [ref: > {target}]\n}}\n'))
        out.append(('missing-table', f'missing-table inline same name other schema {target} (in schema z)', f'Table z.t9 {{\n  c int\n  d int [ref: < {target}]\n}}\n'))
    for target in ('a.nosuch', 'public.b.nosuch', 'sa.x', 's.a.a_id', 'bb.b_id'):
        out.append(('missing-column', f'missing-column inline {target}', f'Table t9 {{\n  c int [pk, ref: > {target}]\n}}\n'))
    for subj in ('nosuch', '(c, nosuch)', '(nosuch, c)', '"c "', '(`c*2`, nosuch)'):
        out.append(('missing-column', f'missing-column index {subj}', f'Table t9 {{\n  c int\n  indexes {{\n    {subj}\n  }}\n}}\n'))
        out.append(('missing-column', f'missing-column index {subj} (block first)', f'Table t9 {{\n  indexes {{\n    c\n    {subj} [unique]\n  }}\n  c int\n}}\n'))
    out.append(('missing-column', 'missing-column in a second indexes block', 'Table t9 {\n  c int\n  indexes {\n    c\n  }\n  d int\n  indexes {\n    nosuch\n  }\n}\n'))
    out.append(('missing-column', 'missing-column in the first of two indexes blocks', 'Table t9 {\n  indexes {\n    (c, nosuch)\n  }\n  c int\n  indexes {\n    c\n  }\n}\n'))
    for item in ('nosuch', 's.b', 'q.a', 'public.nosuch', '"a "', 'q.aa', 's.bb'):
        out.append(('missing-table', f'missing-table group {item}', f'TableGroup h {{\n  a\n  {item}\n}}\n'))
        out.append(('missing-table', f'missing-table group {item} first', f'TableGroup h {{\n  {item}\n  b\n}}\n'))
    return out


def parse_outcome(text):
    from pydbml import PyDBML
    try:
        db = PyDBML(text)
        return 'returned', db
    except BaseException as e:
        return type(e).__name__, e


def check_doc(p, rule, label, text, case):
    exp = EXPECT[rule]
    got, val = parse_outcome(text)
    p['evaluations'] += 1
    p['nontrivial'].add(digest(text))
    p['outcomes'][f'{rule}/{got}'] += 1
    if got != exp:
        kind = 'rule-breaking-document-accepted' if got == 'returned' else 'wrong-error'
        p['violations'].append(violation(PID, kind, dict(case, rule=rule, label=label, text=text), expected=exp, observed=got,
                                         detail=f'{label}: {got} (expected {exp}) | ' + (str(val)[:100] if got != 'returned' else text[-160:].replace('\n', '\\n'))))


# ------------------------------------------------------------------------------------------------
# duplicate references

def ref_text(form, kind, left, right, name, settings):
    """left/right: 'table.col' spellings.  form: short | block"""
    nm = f' {name}' if name else ''
    st = f' [{settings}]' if settings else ''
    if form == 'short':
        return f'Ref{nm}: {left} {kind} {right}{st}\n'
    return f'Ref{nm} {{\n  {left} {kind} {right}{st}\n}}\n'


def dup_ref_docs():
    """two identical copies of b.a_id (kind) a.id written in every pair of forms and addressings"""
    docs = []
    A_ADDR = ['a', 'public.a', 'aa']
    B_ADDR = ['b', 'public.b', 'bb']
    for kind in ('>', '<', '-'):
        for (f1, f2) in itertools.product(('inline', 'short', 'block'), repeat=2):
            for (a1, a2) in itertools.product(range(3), repeat=2):
                named = (f1 != 'inline' and f2 != 'inline')
                for name, settings in ((None, None), ('fk', 'delete: cascade, update: no action')) if named else ((None, None),):
                    inl = []
                    alone = []
                    for f, ai in ((f1, a1), (f2, a2)):
                        if f == 'inline':
                            inl.append(f'ref: {kind} {A_ADDR[ai]}.id')
                        else:
                            s2 = settings
                            if s2 and f == f2 and f1 == f2 and ai == a2:
                                # the order of the settings and the letter case of keys and actions are spelling too
                                s2 = [settings, 'update: no action, delete: cascade', 'Delete: CASCADE, UPDATE: No Action'][(a1 + a2) % 3]
                            alone.append(ref_text(f, kind, f'{B_ADDR[ai]}.a_id', f'{A_ADDR[ai]}.id', name, s2))
                    tb = 'Table b as bb {\n  id int\n  a_id int' + (f' [{", ".join(inl)}]' if inl else '') + '\n}\n'
                    ta = 'Table a as aa {\n  id int [pk]\n}\n'
                    for layout in ('tables-first', 'refs-first', 'between'):
                        if not alone and layout != 'tables-first':
                            continue
                        if layout == 'tables-first':
                            text = ta + tb + ''.join(alone)
                        elif layout == 'refs-first':
                            text = ''.join(alone) + tb + ta
                        else:
                            text = ta + alone[0] + tb + ''.join(alone[1:])
                        control = ta + 'Table b as bb {\n  id int\n  a_id int' + (f' [{inl[0]}]' if inl else '') + '\n}\n' + (alone[0] if not inl else '')
                        docs.append((f'dup-ref {kind} {f1}/{f2} addr {a1}/{a2} {"named" if name else ""} {layout}', text, control))
    return docs


# ------------------------------------------------------------------------------------------------

def units(tier, seed):
    inj = injections()
    us = []
    for k in range(0, len(inj), 12):
        us.append(('inject', k, min(len(inj), k + 12)))
    d = dup_ref_docs()
    for k in range(0, len(d), 80):
        us.append(('dupref', k, min(len(d), k + 80)))
    return us


def work(unit):
    mode, lo, hi = unit
    p = new_part()
    if mode == 'inject':
        inj = injections()[lo:hi]
        for oi, base in enumerate(orders()):
            control = ''.join(t for _, t in base)
            got, val = parse_outcome(control)
            if got != 'returned':
                p['violations'].append(violation(PID, 'control-rejected', {'order': oi, 'text': control}, observed=got, detail=f'the base document is rejected: {got}: {val}'))
                continue
            for rule, label, snippet in inj:
                for pos in range(len(base) + 1):
                    parts = [t for _, t in base]
                    parts.insert(pos, snippet)
                    check_doc(p, rule, label, ''.join(parts), {'mode': 'inject', 'order': oi, 'position': pos})
        p['samples'].append({'rule': inj[0][0], 'snippet': inj[0][2]})
    else:
        docs = dup_ref_docs()[lo:hi]
        for label, text, control in docs:
            got, val = parse_outcome(control)
            if got != 'returned':
                p['violations'].append(violation(PID, 'control-rejected', {'text': control}, observed=got, detail=f'the control document (one copy) is rejected: {got}: {val}'))
                continue
            check_doc(p, 'dup-ref', label, text, {'mode': 'dupref'})
        p['samples'].append({'rule': 'dup-ref', 'document': docs[0][1]})
    return p


def replay(case):
    p = new_part()
    check_doc(p, case['rule'], case['label'], case['text'], {k: v for k, v in case.items() if k not in ('rule', 'label', 'text')})
    return p['violations']
