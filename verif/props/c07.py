"""C07 — malformed text is never accepted: the whole input must be valid DBML.

Fault enumeration over the token stream of harness-written seed documents (the writer knows the structure: no lexing by
pydbml is involved).  For every token boundary / every token of a kind, every fault that is invalid *by construction*:

  stray       a token that belongs to no DBML construct (; @ = ) ] }) inserted at every boundary between tokens
  unclosed    every closing } ] ) and every closing quote deleted (one at a time)
  doubled     every closing } ] ) duplicated
  notype      every column reduced to its bare name (+ settings)
  badword     an unknown setting word added to every settings list (column, index, reference, table, group, enum item) at every
              position of the list; `key: 'value'` added with the properties option off
  badvalue    every index type, reference operator, action and colour replaced by each value of a list of invalid ones
  aftercomment  at every line start: a `//` comment ending in \\, /*, a quote, a backtick, a brace ... (or a block comment)
              followed by a line that is not DBML — a comment must end at its line end and hide nothing
  glued       every element keyword run together with the following bare name, or extended by one identifier character
  truncated   the document cut at every token boundary that leaves a brace / bracket / parenthesis open, and after every token
              that needs a continuation (Ref:, relation operator, `as`, element keyword, `:` of a setting)

Oracle: pyparsing.ParseBaseException (or SyntaxError for a table that ends up without columns) — never a returned Database and
never another exception class.  Control: the seed itself parses.
"""
from __future__ import annotations

import re

from .. import asm as A
from .. import writer
from ..runner import new_part, violation, digest, exc_info
from ..writer import Tok
from . import c10

PID = 'C07'
LEVEL = 'fault_enumeration'
RULE = ('seed documents (3 models x 2-3 styles) x every site of each fault kind x every fault value; every mutated document is parsed by the real '
        'parser; distinct_nontrivial = distinct mutated documents; all are invalid by construction')
ASSUMPTIONS = ['seeds contain no comments and no quote characters inside strings, so an inserted token is never swallowed by a comment or string and a '
               'deleted quote always leaves a string unterminated',
               'a library exception from the semantic phase (e.g. a dangling reference after a cut) also counts as "not accepted"; any other class is a violation']

STRAY = [';', '@', '=', ')', ']', '}', '$$', '\ufeff']
BAD_INDEX_TYPES = ['foo', 'b-tree', 'hashh', '']
BAD_OPERATORS = ['>>', '=', '<=', '->', '><', '']
BAD_ACTIONS = ['explode', 'cascade all', 'setnull', 'no', '']
BAD_COLOURS = ['#f', '#ff', '#ffff', '#fffff', '#fffffff', '#ggg', '#gggggg', 'fff', '#', '#ff ff', '# fff', '#12345g']
ALLOWED = ('ParseException', 'ParseSyntaxException', 'ParseFatalException', 'ParseBaseException', 'SyntaxError',
           'TableNotFoundError', 'ColumnNotFoundError', 'DatabaseValidationError', 'ValidationError')


def bounds(tier):
    return {'seeds': len(seeds()), 'stray_tokens': STRAY, 'bad_colours': BAD_COLOURS, 'bad_operators': BAD_OPERATORS, 'bad_actions': BAD_ACTIONS,
            'bad_index_types': BAD_INDEX_TYPES}


def seed_models():
    m = c10.start_model()
    m['groups'][0]['color'] = '#AbC'
    m['tables'][1]['header_color'] = '#123abc'
    m['tables'][0]['indexes'][0]['type'] = 'btree'
    m['refs'][1]['on_update'] = 'no action'
    m['refs'][1]['on_delete'] = 'set default'
    small = A.model(tables=[A.table('t', [A.col('id', pk=True), A.col('v', 'varchar(20)', default=['str', 'x'], note='n')], note='tn', header_color='#fff',
                                    indexes=[A.index(['id'], type_='hash', name='ix')]),
                            A.table('u', [A.col('id'), A.col('t_id')], schema='s')],
                    enums=[A.enum('e', [A.item('a', note='an'), 'b'])],
                    refs=[A.ref('>', [['s', 'u', 't_id']], [['public', 't', 'id']], name='r', on_delete='cascade'),
                          A.ref('-', [['s', 'u', 'id']], [['public', 't', 'id']], inline=True)],
                    groups=[A.group('g', [['public', 't']], note='gn', color='#123')], notes=[A.sticky('n', 'sticky')],
                    project=A.project('p', [['k', 'v']], note='pn'))
    return [('start', m), ('small', small)]


def props_model():
    """parsed with allow_properties=True (its own grammar elements: table_with_properties, the property-aware column settings)"""
    t = A.table('t', [A.col('id', pk=True, properties=[['ck', 'cv']]), A.col('v', 'varchar(20)', default=['str', 'x'], note='n', properties=[['c 2', 'w']])],
                note='tn', header_color='#fff', alias='tt', indexes=[A.index(['id'], type_='hash', name='ix')], properties=[['tk', 'tv'], ['t 2', 'x']])
    u = A.table('u', [A.col('id'), A.col('t_id')], schema='s', properties=[['uk', 'uv']])
    return A.model(tables=[t, u], refs=[A.ref('>', [['s', 'u', 't_id']], [['public', 't', 'id']], name='r', on_delete='cascade')],
                   enums=[A.enum('e', ['a', 'b'])], allow_properties=True)


def seeds():
    out = []
    for name, m in seed_models():
        out.append((name + '/plain', m, writer.Style()))
        out.append((name + '/airy-block', m, writer.Style(airy=True, ref_form='block', multiline='trail', note_form='block', quote='quoted', string='d', case='upper')))
    out.append(('small/lead-settings', seed_models()[1][1], writer.Style(multiline='lead', note_form='settings', idx_pos='first', note_pos='first', string='t')))
    out.append(('props/plain', props_model(), writer.Style()))
    out.append(('props/trail-quoted', props_model(), writer.Style(multiline='trail', quote='quoted', note_form='block')))
    return out


def real_tokens(m, st):
    return [t for t in writer.tokens(m, st) if t.kind != 'slot']


def text_of(toks):
    return ''.join(t.text for t in toks)


def parse_outcome(text, on=False):
    from pydbml import PyDBML
    try:
        PyDBML(text, allow_properties=on)
        return 'returned', None
    except BaseException as e:
        return type(e).__name__, e


def legit_property(text):
    """with the option on, an unknown `key: 'value'` entry in a *column's* settings is a property, not a fault: accepted only if it
    was stored as one"""
    from pydbml import PyDBML
    db = PyDBML(text, allow_properties=True)
    return sum(1 for t in db.tables for c in t.columns if c.properties.get('bogus') == 'x') == 1


def check(p, fault, label, text, seedname):
    got, exc = parse_outcome(text, seedname.startswith('props/'))
    if got == 'returned' and seedname.startswith('props/') and fault == 'badword' and "bogus: 'x'" in label and legit_property(text):
        p['outcomes']['badword/stored-as-column-property(option on)'] += 1
        return
    p['evaluations'] += 1
    p['nontrivial'].add(digest(text))
    p['outcomes'][f'{fault}/{got}'] += 1
    if got not in ALLOWED:
        kind = 'malformed-document-accepted' if got == 'returned' else 'wrong-error-class'
        p['violations'].append(violation(PID, kind, {'fault': fault, 'label': label, 'seed': seedname, 'text': text}, expected='syntax error', observed=got,
                                         detail=f'{fault} {label} on {seedname}: {got}' + (f': {str(exc)[:100]}' if exc is not None else '')))


# ------------------------------------------------------------------------------------------------
# mutators: each yields (label, mutated text)

def m_stray(toks):
    for i in range(len(toks) + 1):
        # never directly inside a pair that forms one lexical unit (e.g. between `ref` and `:`): boundaries between writer tokens are
        # real token boundaries; skip positions where the inserted text would merge with a neighbouring word into a longer valid word
        for s in STRAY:
            if s == '\ufeff' and not any(t.text.strip() for t in toks[:i]):
                continue            # a byte-order mark at the very beginning is legitimate
            yield f'{s!r} at boundary {i}', text_of(toks[:i] + [Tok(' ' + s + ' ', 'raw')] + toks[i:])


CLOSERS = {'}', ']', ')'}


def m_unclosed(toks):
    for i, t in enumerate(toks):
        if t.kind == 'punct' and t.text in CLOSERS:
            yield f'closing {t.text} #{i} deleted', text_of(toks[:i] + toks[i + 1:])
        if t.kind == 'str' and len(t.text) >= 2:
            q = "'''" if t.text.endswith("'''") and len(t.text) >= 6 else t.text[-1]
            yield f'closing quote of {t.text[:12]!r} #{i} deleted', text_of(toks[:i] + [Tok(t.text[:-len(q)], 'raw')] + toks[i + 1:])
        if t.kind == 'name' and t.text.startswith('"') and len(t.text) > 2:
            yield f'closing quote of identifier {t.text} #{i} deleted', text_of(toks[:i] + [Tok(t.text[:-1], 'raw')] + toks[i + 1:])


def m_doubled(toks):
    for i, t in enumerate(toks):
        if t.kind == 'punct' and t.text in CLOSERS:
            yield f'closing {t.text} #{i} doubled', text_of(toks[:i + 1] + [Tok(t.text, 'punct')] + toks[i + 1:])
        if t.kind == 'punct' and t.text in '{[':
            yield f'opening {t.text} #{i} doubled', text_of(toks[:i + 1] + [Tok(t.text, 'punct')] + toks[i + 1:])


def m_repeated(toks):
    """a whole settings list [...] or body {...} written twice in a row"""
    stack = []
    for i, t in enumerate(toks):
        if t.kind != 'punct':
            continue
        if t.text in '[{':
            stack.append(i)
        elif t.text in ']}' and stack:
            j = stack.pop()
            if toks[j].text + t.text in ('[]', '{}'):
                group = toks[j:i + 1]
                yield f'group {toks[j].text}...{t.text} #{j}-{i} repeated', text_of(toks[:i + 1] + [Tok(' ', 'ws')] + group + toks[i + 1:])


HEADER_KW = {'table', 'enum', 'ref', 'tablegroup', 'project', 'note'}


def m_doubledname(toks):
    """the name in an element header written twice (`Ref r r:`, `Table t t {`, `Enum s.e e {` ...)"""
    for i, t in enumerate(toks):
        if t.kind != 'kw' or t.text.lower() not in HEADER_KW:
            continue
        j = i + 1
        while j < len(toks) and toks[j].kind == 'ws':
            j += 1
        if j < len(toks) and toks[j].kind == 'name':
            # (a schema-qualified name is several tokens: repeat the last part after the whole name)
            k = j
            while k + 2 < len(toks) and toks[k + 1].text == '.' and toks[k + 2].kind == 'name':
                k += 2
            yield f'header name {toks[k].text} #{k} after {t.text} doubled', text_of(toks[:k + 1] + [Tok(' ', 'ws'), toks[k]] + toks[k + 1:])
    # an alias clause written twice: Table t as a as a {
    for i, t in enumerate(toks):
        if t.kind == 'kw' and t.text.lower() == 'as':
            j = i + 1
            while j < len(toks) and toks[j].kind == 'ws':
                j += 1
            if j < len(toks) and toks[j].kind == 'name':
                yield f'alias clause #{i} repeated', text_of(toks[:j + 1] + [Tok(' ', 'ws')] + toks[i:j + 1] + toks[j + 1:])


def lines_of(toks):
    """split the token list into lines (lists of token indices)"""
    cur, out = [], []
    for i, t in enumerate(toks):
        cur.append(i)
        if t.kind == 'nl':
            out.append(cur)
            cur = []
    if cur:
        out.append(cur)
    return out


def m_notype(m, st):
    """every column reduced to its bare name: re-write the model with a marker type and cut it out of the text"""
    for ti, t in enumerate(m['tables']):
        for ci, c in enumerate(t['columns']):
            m2 = A.clone(m)
            m2['tables'][ti]['columns'][ci]['type'] = ['str', 'ZZTYPEZZ']
            text = writer.write(m2, st)
            cut = re.sub(r'[ ]*"?ZZTYPEZZ"?', '', text, count=1)
            if cut != text:
                yield f'column {t["name"]}.{c["name"]} without a type', cut


def m_badword(toks):
    """an unknown word / key:value added to every settings list at every position"""
    depth_start = None
    i = 0
    n = len(toks)
    while i < n:
        if toks[i].kind == 'punct' and toks[i].text == '[':
            j = i + 1
            commas = []
            while j < n and not (toks[j].kind == 'punct' and toks[j].text == ']'):
                if toks[j].kind == 'punct' and toks[j].text == ',':
                    commas.append(j)
                j += 1
            for word in ('bogus', "bogus: 'x'", 'primary', 'note'):
                yield f'{word!r} first in settings #{i}', text_of(toks[:i + 1] + [Tok(word + ', ', 'raw')] + toks[i + 1:])
                yield f'{word!r} last in settings #{i}', text_of(toks[:j] + [Tok(', ' + word, 'raw')] + toks[j:])
                for c in commas:
                    yield f'{word!r} in the middle of settings #{i}', text_of(toks[:c + 1] + [Tok(' ' + word + ',', 'raw')] + toks[c + 1:])
            yield f'empty settings #{i}', text_of(toks[:i + 1] + toks[j:])
            yield f'trailing comma in settings #{i}', text_of(toks[:j] + [Tok(',', 'punct')] + toks[j:])
            i = j
        i += 1


def m_badvalue(toks):
    for i, t in enumerate(toks):
        low = t.text.lower()
        if t.kind == 'kw' and low in ('btree', 'hash', 'gin', 'gist', 'brin', 'spgist') and i >= 2 and toks[i - 2].text.lower() == 'type:':
            for b in BAD_INDEX_TYPES:
                yield f'index type {b!r} #{i}', text_of(toks[:i] + [Tok(b, 'raw')] + toks[i + 1:])
        if t.kind == 'punct' and t.text in ('>', '<', '-', '<>') and i >= 1 and toks[i - 1].kind == 'ws' and i + 1 < len(toks) and toks[i + 1].kind == 'ws':
            for b in BAD_OPERATORS:
                yield f'reference operator {b!r} #{i}', text_of(toks[:i] + [Tok(b, 'raw')] + toks[i + 1:])
        if t.kind == 'kw' and low in ('cascade', 'restrict', 'set null', 'set default', 'no action') and i >= 2 and toks[i - 2].text.lower() in ('update:', 'delete:'):
            for b in BAD_ACTIONS:
                yield f'action {b!r} #{i}', text_of(toks[:i] + [Tok(b, 'raw')] + toks[i + 1:])
        if t.kind == 'num' and t.text.startswith('#'):
            for b in BAD_COLOURS:
                yield f'colour {b!r} #{i}', text_of(toks[:i] + [Tok(b, 'raw')] + toks[i + 1:])


NEEDS_MORE = {'table', 'enum', 'ref', 'tablegroup', 'project', 'as', 'ref:', 'note:', 'default:', 'type:', 'name:', 'update:', 'delete:', 'headercolor:',
              'color:', 'indexes', ':', '.', ',', '>', '<', '-', '<>', '(', '[', '{'}


def m_truncated(toks):
    depth = 0
    for i, t in enumerate(toks):
        if t.kind == 'punct' and t.text in '{[(':
            depth += 1
        elif t.kind == 'punct' and t.text in '}])':
            depth -= 1
        if t.kind in ('ws', 'nl'):
            continue
        if depth > 0:
            yield f'cut after token #{i} {t.text[:10]!r} (depth {depth})', text_of(toks[:i + 1])
            yield f'cut after token #{i} {t.text[:10]!r} (depth {depth}) + newline', text_of(toks[:i + 1]) + '\n'
        elif t.text.lower() in NEEDS_MORE:
            yield f'cut after {t.text!r} #{i}', text_of(toks[:i + 1])
            yield f'cut after {t.text!r} #{i} + newline', text_of(toks[:i + 1]) + '\n'


COMMENT_ENDINGS = ['', ' \\', ' /*', " '", ' `', ' {', ' "', " '''", ' [', ' */', ' \\\\']


def m_aftercomment(toks):
    """a comment line (ending in characters that could tempt a lexer) followed by a line that is not DBML, at every line start"""
    for i, t in enumerate(toks):
        if t.kind != 'nl':
            continue
        for end in COMMENT_ENDINGS:
            for bad in (';', 'foo = bar', '}'):
                ins = [Tok('// a comment' + end, 'comment'), Tok('\n', 'nl'), Tok(bad, 'raw'), Tok('\n', 'nl')]
                yield f'comment ending {end!r} then {bad!r} after line break #{i}', text_of(toks[:i + 1] + ins + toks[i + 1:])
        for bad in (';', 'foo = bar'):
            ins = [Tok('/* block', 'comment'), Tok('\n', 'nl'), Tok('   comment \\ */', 'comment'), Tok('\n', 'nl'), Tok(bad, 'raw'), Tok('\n', 'nl')]
            yield f'block comment then {bad!r} after line break #{i}', text_of(toks[:i + 1] + ins + toks[i + 1:])


ELEMENT_KEYWORDS = {'table', 'enum', 'ref', 'tablegroup', 'project', 'note', 'indexes'}


def m_glued(toks):
    """an element keyword run together with the bare word that follows it (`Tablet {`, `Enume {`): not a keyword any more"""
    for i, t in enumerate(toks):
        if t.kind == 'kw' and t.text.lower() in ELEMENT_KEYWORDS and i + 2 < len(toks) and toks[i + 1].kind == 'ws':
            nxt = toks[i + 2]
            if nxt.kind == 'name' and not nxt.text.startswith('"'):
                yield f'{t.text} glued to {nxt.text} #{i}', text_of(toks[:i + 1] + toks[i + 2:])
            for junk in ('x', '_', '1'):
                yield f'{t.text}{junk} #{i}', text_of(toks[:i] + [Tok(t.text + junk, 'raw')] + toks[i + 1:])


MUTATORS = {'glued': m_glued, 'aftercomment': m_aftercomment, 'stray': m_stray, 'unclosed': m_unclosed, 'doubled': m_doubled, 'repeated': m_repeated, 'doubledname': m_doubledname, 'badword': m_badword, 'badvalue': m_badvalue, 'truncated': m_truncated}


BAD_BYTES = [b'\xe9', b'\xa4 \xa4', b'\xff\xfe']
FILE_ROUTES = ['PyDBML(Path)', 'parse_file(str path)', 'parse_file(Path)']


def file_outcome(route, path):
    import pathlib
    from pydbml import PyDBML
    try:
        if route == 'PyDBML(Path)':
            PyDBML(pathlib.Path(path))
        elif route == 'parse_file(str path)':
            PyDBML.parse_file(str(path))
        else:
            PyDBML.parse_file(pathlib.Path(path))
        return 'returned', None
    except BaseException as e:
        return type(e).__name__, e


def check_undecodable(p, seedname, toks, part, nparts):
    """bytes that are not UTF-8, at token boundaries of a file the library opens itself: they are unparseable parts of the input and
    must not be dropped silently (any error is fine; a returned database is not)"""
    import os
    import tempfile
    d = tempfile.mkdtemp(prefix='verif_c07_')
    try:
        k = 0
        for i in range(0, len(toks) + 1, 3):
            for bad in BAD_BYTES:
                k += 1
                if k % nparts != part:
                    continue
                data = text_of(toks[:i]).encode('utf8') + b' ' + bad + b' ' + text_of(toks[i:]).encode('utf8')
                path = os.path.join(d, 'doc.dbml')
                with open(path, 'wb') as f:
                    f.write(data)
                for route in FILE_ROUTES:
                    got, exc = file_outcome(route, path)
                    p['evaluations'] += 1
                    p['nontrivial'].add(digest([seedname, i, bad.hex(), route]))
                    p['outcomes'][f'undecodable/{got}'] += 1
                    if got == 'returned':
                        p['violations'].append(violation(PID, 'malformed-document-accepted', {'fault': 'undecodable', 'seed': seedname, 'boundary': i, 'bytes': bad.hex(), 'route': route},
                                                         expected='an error', observed=got,
                                                         detail=f'{route}: file with the non-UTF-8 bytes {bad!r} at token boundary {i} of {seedname} was accepted'))
    finally:
        import shutil
        shutil.rmtree(d, ignore_errors=True)


def units(tier, seed):
    us = []
    for si in (0, 2):
        for part in range(4):
            us.append((si, 'undecodable', part, 4))
    for si in range(len(seeds())):
        for fault in list(MUTATORS) + ['notype']:
            if fault == 'aftercomment' and tier == 'quick' and si not in (0, 2):
                continue            # (quick: the plain style of both models)
            if fault in ('stray', 'aftercomment'):
                for part in range(8):
                    us.append((si, fault, part, 8))
            else:
                us.append((si, fault, 0, 1))
    return us


def work(unit):
    si, fault, part, nparts = unit
    p = new_part()
    name, m, st = seeds()[si]
    toks = real_tokens(m, st)
    got, exc = parse_outcome(text_of(toks), name.startswith('props/'))
    if got != 'returned':
        p['violations'].append(violation(PID, 'control-rejected', {'seed': name, 'text': text_of(toks)}, observed=got, detail=f'seed {name} does not parse: {got}: {exc}'))
        return p
    if fault == 'undecodable':
        check_undecodable(p, name, toks, part, nparts)
        p['samples'].append({'seed': name, 'fault': fault, 'bytes': [b.hex() for b in BAD_BYTES], 'routes': FILE_ROUTES})
        return p
    gen = m_notype(m, st) if fault == 'notype' else MUTATORS[fault](toks)
    last = None
    for k, (label, text) in enumerate(gen):
        if k % nparts != part:
            continue
        check(p, fault, label, text, name)
        last = (label, text)
    if last:
        p['samples'].append({'seed': name, 'fault': fault, 'label': last[0], 'text_tail': last[1][-120:]})
    return p


def replay(case):
    p = new_part()
    if case.get('fault') == 'undecodable':
        for name, m, st in seeds():
            if name == case['seed']:
                check_undecodable(p, name, real_tokens(m, st), 0, 1)
        return [v for v in p['violations'] if v['case'] == case] or p['violations']
    check(p, case['fault'], case['label'], case['text'], case['seed'])
    return p['violations']
