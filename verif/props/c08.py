"""C08 — parsing and rendering never fail with an internal error.

Exhaustive small inputs and mutations, every one run through the real parser under a wall-clock watchdog:

  soups      every sequence of up to 3 tokens over the DBML token alphabet (keywords, punctuation, the three string forms,
             expression, operators, settings words, numbers, colour, comment openers, BOM)
  mutations  every single token-level mutation of seed documents: delete / duplicate / swap with the next / replace by each
             alphabet token, at every token position
  sites      every string up to the length bound over a punctuation-heavy alphabet inserted *raw* (unescaped) at every name,
             type, note, comment, default, expression, property and project-field position of a template document
  shapes     a fixed list of shapes the statement names (empty, comment only, BOM, whitespace-only notes, dotted quoted names
             and types, nested parentheses up to depth 6)

Oracle: the outcome is a returned Database, a pyparsing.ParseBaseException, an exception from pydbml.exceptions, or SyntaxError;
anything else (ValueError, KeyError, IndexError, AttributeError, TypeError, RecursionError, ...) is a violation.  When a
Database is returned, `.dbml` and `.sql` of the database and of every element in it must evaluate without raising.
"""
from __future__ import annotations

import itertools
import signal

from .. import writer
from ..runner import new_part, violation, digest, exc_info
from . import c07

PID = 'C08'
LEVEL = 'exploration'
RULE = ('all token sequences up to length 3 over the token alphabet; every single-token mutation (delete, duplicate, swap, replace by each alphabet '
        'token) of the seed documents; every short string over the site alphabet inserted raw at every site of the template; a list of named shapes; '
        'distinct_nontrivial = distinct input texts parsed (and rendered when accepted)')
ASSUMPTIONS = ['parenthesis nesting is bounded by 6 (the statement excludes recursion-limit depth)',
               'a per-parse wall-clock limit of 20 s stands in for "terminates"']

TOKENS_CORE = ['Table', 'Enum', 'Ref', 'TableGroup', 'Project', 'Note', 'indexes', 'as', '{', '}', '[', ']', '(', ')', ':', ',', '.', '\n',
               "'s'", '"d"', '`e`', 'ref:', '>', '<>', 'note:', 'default:', 'pk', 'null', '1', '#fff', '// c', 'a']
TOKENS_MORE = ["'''t'''", '<', '-', 'unique', 'not null', '1.5', '/*', '*/', "'''", 'b', 'int', '﻿', 'true', 'headercolor:', 'type:', 'btree',
               'name:', 'update:', 'cascade', 'increment', "'", '"', '`', 'a.b', 'a.b.c', '"a.b"']
SITE_ALPHABET = ['a', ' ', '\n', '.', '{', '}', '(', ')', "'", '"', '`', '#', '/', '*', ':', '\\', ',', ']']


def bounds(tier):
    return {'soup_alphabet': len(TOKENS_CORE) if tier == 'quick' else len(TOKENS_CORE) + len(TOKENS_MORE), 'soup_length': 3,
            'site_string_length': 2 if tier == 'quick' else 3, 'site_alphabet': SITE_ALPHABET, 'sites': len(SITES),
            'mutation_seeds': 2 if tier == 'quick' else 5}


def library_exceptions():
    import pydbml.exceptions as E
    return tuple(v for v in vars(E).values() if isinstance(v, type) and issubclass(v, Exception))


class Timeout(Exception):
    pass


def _alarm(signum, frame):
    raise Timeout()


def total(text, allow_properties=False):
    """-> (outcome label, problem or None).  problem = (kind, detail, exc_info)"""
    import pyparsing
    from pydbml import PyDBML
    signal.signal(signal.SIGALRM, _alarm)
    signal.alarm(20)
    try:
        try:
            db = PyDBML(text, allow_properties=allow_properties)
        except pyparsing.ParseBaseException:
            return 'parse-error', None
        except library_exceptions() as e:
            return 'library-error:' + type(e).__name__, None
        except SyntaxError as e:
            return 'SyntaxError', None
        except Timeout:
            return 'timeout', ('parse-does-not-terminate', 'parsing exceeded 20 s', None)
        except RecursionError as e:
            return 'RecursionError', ('internal-error-in-parse', 'RecursionError', exc_info(e))
        except Exception as e:
            return 'internal:' + type(e).__name__, ('internal-error-in-parse', f'{type(e).__name__}: {str(e)[:120]}', exc_info(e))
        # rendering must be total
        try:
            objs = [('db', db)]
            for i, t in enumerate(db.tables):
                objs.append((f'tables[{i}]', t))
                objs.append((f'tables[{i}].note', t.note))
                for j, c in enumerate(t.columns):
                    objs.append((f'tables[{i}].columns[{j}]', c))
                    objs.append((f'tables[{i}].columns[{j}].note', c.note))
                for j, ix in enumerate(t.indexes):
                    objs.append((f'tables[{i}].indexes[{j}]', ix))
            for i, e in enumerate(db.enums):
                objs.append((f'enums[{i}]', e))
                for j, it in enumerate(e.items):
                    objs.append((f'enums[{i}].items[{j}]', it))
            for i, r in enumerate(db.refs):
                objs.append((f'refs[{i}]', r))
            for i, g in enumerate(db.table_groups):
                objs.append((f'table_groups[{i}]', g))
            for i, n in enumerate(db.sticky_notes):
                objs.append((f'sticky_notes[{i}]', n))
            if db.project is not None:
                objs.append(('project', db.project))
                objs.append(('project.note', db.project.note))
            for label, o in objs:
                for attr in ('dbml', 'sql'):
                    if not hasattr(type(o), attr):
                        continue
                    try:
                        v = getattr(o, attr)
                        if not isinstance(v, str):
                            return 'returned', ('rendering-not-a-string', f'{label}.{attr} is {type(v).__name__}', None)
                    except Timeout:
                        raise
                    except Exception as e:
                        return 'returned', ('internal-error-in-render', f'{label}.{attr}: {type(e).__name__}: {str(e)[:120]}', exc_info(e))
        except Timeout:
            return 'timeout', ('render-does-not-terminate', 'rendering exceeded 20 s', None)
        return 'returned', None
    finally:
        signal.alarm(0)


def check(p, family, text, allow_properties=False, extra=None):
    out, prob = total(text, allow_properties)
    p['evaluations'] += 1
    p['nontrivial'].add(digest([text, allow_properties]))
    p['outcomes'][f'{family}/{out.split(":")[0]}'] += 1
    if prob:
        kind, detail, info = prob
        case = {'family': family, 'text': text, 'allow_properties': allow_properties}
        if extra:
            case.update(extra)
        p['violations'].append(violation(PID, kind, case, observed=info, detail=f'{family}: {detail} | input {text[:160]!r}'))


# ------------------------------------------------------------------------------------------------
# sites: template with one hole

TEMPLATE_HEAD = 'Table other {\n  id int\n}\n'
SITES = [
    ('table name', 'Table "§" {\n  id int\n}\n'),
    ('schema', 'Table "§".t {\n  id int\n}\n'),
    ('alias', 'Table t as "§" {\n  id int\n}\n'),
    ('bare table name', 'Table §{\n  id int\n}\n'),
    ('column name', 'Table t {\n  "§" int\n}\n'),
    ('bare column line', 'Table t {\n  § int\n}\n'),
    ('quoted column type', 'Table t {\n  id "§"\n}\n'),
    ('bare column type', 'Table t {\n  id §\n}\n'),
    ('type args', 'Table t {\n  id varchar(§)\n}\n'),
    ('enum name', 'Enum "§" {\n  a\n}\nTable t {\n  id "§"\n}\n'),
    ('enum schema', 'Enum "§".e {\n  a\n}\nTable t {\n  id "§".e\n}\n'),
    ('enum item', 'Enum e {\n  "§"\n}\n'),
    ('ref name', TEMPLATE_HEAD + 'Table t {\n  id int\n}\nRef "§": t.id > other.id\n'),
    ('ref column', TEMPLATE_HEAD + 'Table t {\n  "§" int\n}\nRef: t."§" > other.id\n'),
    ('ref comment', TEMPLATE_HEAD + 'Table t {\n  id int\n}\nRef: t.id > other.id // §\n'),
    ('ref block comment', TEMPLATE_HEAD + 'Table t {\n  id int\n}\n/* § */\nRef: t.id <> other.id\n'),
    ('inline ref target', TEMPLATE_HEAD + 'Table t {\n  id int [ref: > other.§]\n}\n'),
    ('table note', "Table t {\n  id int\n  Note: '§'\n}\n"),
    ('table note block', "Table t {\n  id int\n  Note {\n    '''§'''\n  }\n}\n"),
    ('column note', "Table t {\n  id int [note: '§']\n}\n"),
    ('column note dq', 'Table t {\n  id int [note: "§"]\n}\n'),
    ('index note', "Table t {\n  id int\n  indexes {\n    id [note: '''§''']\n  }\n}\n"),
    ('index name', "Table t {\n  id int\n  indexes {\n    id [name: '§']\n  }\n}\n"),
    ('index subject', 'Table t {\n  id int\n  indexes {\n    (id, `§`)\n  }\n}\n'),
    ('index quoted subject', 'Table t {\n  "§" int\n  indexes {\n    "§"\n  }\n}\n'),
    ('item note', "Enum e {\n  a [note: '§']\n}\n"),
    ('group name', 'Table t {\n  id int\n}\nTableGroup "§" {\n  t\n}\n'),
    ('group note', "Table t {\n  id int\n}\nTableGroup g [note: '§'] {\n  t\n}\n"),
    ('project name', 'Project "§" {\n}\n'),
    ('project field', "Project p {\n  k: '§'\n}\n"),
    ('project key', 'Project p {\n  "§": \'v\'\n}\n'),
    ('project note', "Project p {\n  Note: '''§'''\n}\n"),
    ('sticky name', "Note \"§\" {\n  'x'\n}\n"),
    ('sticky text', "Note n {\n  '''§'''\n}\n"),
    ('comment above table', '// §\nTable t {\n  id int // §\n}\n'),
    ('block comment in body', 'Table t {\n  /* § */\n  id int\n}\n'),
    ('string default', "Table t {\n  id int [default: '§']\n}\n"),
    ('expression default', 'Table t {\n  id int [default: `§`]\n}\n'),
    ('bare default', 'Table t {\n  id int [default: §]\n}\n'),
    ('headercolor', 'Table t [headercolor: #§] {\n  id int\n}\n'),
    ('table property', "Table t {\n  id int\n  k: '§'\n}\n"),
    ('column property', "Table t {\n  id int [\"§\": '§']\n}\n"),
    ('top level', '§\n'),
    ('after document', 'Table t {\n  id int\n}\n§'),
]
PROPS_SITES = {'table property', 'column property'}

SHAPES = ['', '\n', ' ', '\n\n\n', '// only a comment', '// c\n', '/* block */', '/* unterminated', '﻿', '﻿\n', '﻿Table t {\n  id int\n}\n', '﻿﻿',
          "Table t {\n  id int [note: ' ']\n}\n", "Table t {\n  id int\n  Note: '   '\n}\n", "Table t {\n  id int\n  Note {\n '''\n\n   \n'''\n}\n}\n",
          "Note n {\n  ''\n}\n", "Note n {\n  '''\n\n'''\n}\n", "Enum e {\n  a [note: '\\n']\n}\n",
          'Table "a.b" {\n  id int\n}\n', 'Table "a.b"."c.d" {\n  id int\n}\nTableGroup g {\n  "a.b"."c.d"\n}\n', 'Table t {\n  id "a.b.c"\n}\n',
          'Table t {\n  id "a.b.c.d"\n}\n', 'Table t {\n  id "."\n}\n', 'Table t {\n  id ".."\n}\n', 'Table t {\n  id a.b.c\n}\n',
          'Enum "x.y" {\n  a\n}\nTable t {\n  id "x.y"\n}\n', 'Table "t{1}" {\n  "c{2}" int\n}\nTable u {\n  id int [ref: > "t{1}"."c{2}"]\n}\nRef "{n}": u.id <> "t{1}"."c{2}" // {c}\n',
          'Table t {\n  id int [default: ((((((1))))))]\n}\n', 'Table t {\n  id f(g(h(i(j(k(1))))))\n}\n', 'Table t {\n  id int\n  indexes {\n    `((((((a))))))`\n  }\n}\n',
          'Project "a\\nb" {\n}\n', 'Table t {\n  id int\n}\nTableGroup "g\\nh" {\n  t\n}\n', 'Table "a\\tb" {\n  "c\\nd" int\n}\n',
          'Table t {\n  a int\n  b int\n}\nTable u {\n  id int\n}\nRef: t.(a, b) > u.id\n', 'Table t {\n  a int\n  b int\n}\nTable u {\n  id int\n}\nRef: u.id < t.(a, b)\n',
          'Table t {\n  a int\n  b int\n}\nTable u {\n  id int\n  k int\n  l int\n}\nRef {\n  t.(a, b) <> u.(id, k, l)\n}\n', 'Table t {\n  a int\n}\nRef: t.a - t.(a, a)\n',
          'Table "" {\n  "" ""\n}\n', 'Table ""."" {\n  id int\n}\nEnum "" {\n  ""\n}\n', 'Table t {\n  id int [note: \'\']\n  Note: \'\'\n}\nNote "" {\n  \'\'\n}\nProject "" {\n}\nTableGroup "" {\n}\n',
          'Table t {\n  id int [default: 99999999999999999999999999999999999999999999]\n}\n', 'Table t {\n  id int [default: 1.]\n}\n',
          'Table t {\n  id int [default: 00.00]\n}\n', "Table t {\n  id int [default: '\\\\']\n}\n", 'Ref: a.b > a.b\n', 'Table t {\n  id int [ref: > t.id]\n}\n',
          'Table t {\n  id int [ref: - t.id, ref: - t.id]\n}\n', 'Table t {\n  id int\n  id int\n}\n', 'Enum e {\n  a\n  a\n}\n',
          'Table t {\n  id int\n  indexes {\n    id\n    id\n  }\n}\n', 'Table t {\n  id int\n}\nTableGroup g {\n}\n', 'Project p {\n}\nProject q {\n}\n',
          'Table t {\n  id int\n  Note: \'a\'\n  Note: \'b\'\n}\n', 'Table t {\n  id int\n  indexes {\n    id\n  }\n  indexes {\n    id [pk]\n  }\n}\n',
          # number literals beyond what the interpreter converts to int by default (sys.get_int_max_str_digits() = 4300)
          'Table t {\n  id int [default: ' + '9' * 4300 + ']\n}\n', 'Table t {\n  id int [default: ' + '9' * 4301 + ']\n}\n',
          'Table t {\n  id int [default: ' + '1' * 20000 + ']\n}\n', 'Table t {\n  id int [default: ' + '1' * 5000 + '.5]\n}\n',
          'Table t {\n  id varchar(' + '7' * 5000 + ')\n}\n']


NUM_ALPHABET = ['1', '0', '.', 'e', 'E', '-', '+', 'x', '_']


def number_strings(n):
    out = []
    for k in range(1, n + 1):
        out += [''.join(t) for t in itertools.product(NUM_ALPHABET, repeat=k)]
    return out


def site_strings(n):
    out = []
    for k in range(0, n + 1):
        out += [''.join(t) for t in itertools.product(SITE_ALPHABET, repeat=k)]
    return out


# ------------------------------------------------------------------------------------------------

def soup_alphabet(tier):
    return TOKENS_CORE if tier == 'quick' else TOKENS_CORE + TOKENS_MORE


def units(tier, seed):
    us = []
    alpha = soup_alphabet(tier)
    for a in range(len(alpha)):
        us.append(('soup', a, tier))
    nseeds = 2 if tier == 'quick' else 5
    for si in range(len(c07.seeds())):
        if (tier == 'quick' and si not in (2, 3)) or si >= 5:
            continue
        ntok = len([t for t in c07.real_tokens(*c07.seeds()[si][1:]) if t.kind not in ('ws', 'nl')])
        for lo in range(0, ntok, 12):
            us.append(('mutate', (si, lo, lo + 12), tier))
    for k in range(len(SITES)):
        us.append(('site', k, tier))
    us.append(('shapes', None, tier))
    return us


def work(unit):
    mode, arg, tier = unit
    p = new_part()
    alpha = soup_alphabet(tier)
    if mode == 'soup':
        first = alpha[arg]
        check(p, 'soup', first)
        for b in alpha:
            check(p, 'soup', first + ' ' + b)
            for c in alpha:
                check(p, 'soup', first + ' ' + b + ' ' + c)
        p['samples'].append({'family': 'soup', 'example': first + ' ' + alpha[1] + ' ' + alpha[2]})
    elif mode == 'mutate':
        si, lo, hi = arg
        name, m, st = c07.seeds()[si]
        toks = c07.real_tokens(m, st)
        idx = [i for i, t in enumerate(toks) if t.kind not in ('ws', 'nl')][lo:hi]
        allidx = [i for i, t in enumerate(toks) if t.kind not in ('ws', 'nl')]
        for i in idx:
            pre, cur, post = toks[:i], toks[i], toks[i + 1:]
            check(p, 'mutate', c07.text_of(pre + post), extra={'seed': name, 'op': f'delete #{i}'})
            check(p, 'mutate', c07.text_of(pre + [cur, writer.Tok(' ', 'ws'), cur] + post), extra={'seed': name, 'op': f'duplicate #{i}'})
            nxt = [j for j in allidx if j > i][:1]
            if nxt:
                j = nxt[0]
                sw = list(toks)
                sw[i], sw[j] = sw[j], sw[i]
                check(p, 'mutate', c07.text_of(sw), extra={'seed': name, 'op': f'swap #{i} #{j}'})
            for a in alpha:
                check(p, 'mutate', c07.text_of(pre + [writer.Tok(a, 'raw')] + post), extra={'seed': name, 'op': f'replace #{i} by {a!r}'})
        p['samples'].append({'family': 'mutate', 'seed': name, 'token_positions': [lo, hi]})
    elif mode == 'site':
        label, tmpl = SITES[arg]
        n = 2 if tier == 'quick' else 3
        for s in site_strings(n):
            check(p, 'site', tmpl.replace('§', s), allow_properties=label in PROPS_SITES, extra={'site': label, 'inserted': s})
        if label == 'bare default':
            # number-like spellings: every string up to length 3 (quick) / 4 over digits, dot, exponent letters and signs
            for s in number_strings(n + 1):
                check(p, 'site', tmpl.replace('§', s), extra={'site': label, 'inserted': s})
        p['samples'].append({'family': 'site', 'site': label, 'template': tmpl})
    else:
        for s in SHAPES:
            check(p, 'shape', s)
            check(p, 'shape', s, allow_properties=True)
        p['samples'].append({'family': 'shape', 'count': len(SHAPES)})
    return p


def replay(case):
    p = new_part()
    check(p, case['family'], case['text'], case.get('allow_properties', False))
    return p['violations']
