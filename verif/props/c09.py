"""C09 — the container stays consistent under any sequence of add, delete and rename.

Explicit-state model checking with the real Database / Table code as transition function and a boring
reference model (ordered lists + the set of names currently borne by contained tables) stepped in lock-step.

A state is identified by the operation history that reaches it: for every dequeued history a fresh universe of
objects is built, the history is replayed, every enabled operation is applied on a fresh replay, outcome class and
the complete observable state are compared with the model after every step, and the successor is kept iff the
canonical hash of the *implementation's* state (including its internal name index) is new.

Three universes, each forced to collide:
  A  tables (twin, name clash, alias clash, alias equal to a key, other schema), references, renames
  B  enums, table groups, sticky notes, projects, unsupported type, plus two tables for the references/groups
  T  one table: columns and indexes by object / twin / position / bad position, index over a foreign column
"""
from __future__ import annotations

import itertools
from collections import deque

from ..runner import new_part, violation, digest, exc_info

PID = 'C09'
LEVEL = 'model_checking'
RULE = ('BFS over operation histories (add / delete of every universe object, delete_project, renames of name / schema / alias, '
        'column and index add / delete by object, twin, position and bad position) on fresh real objects, reference model in lock-step; '
        'states = distinct implementation states (hash of lists, name index, back-pointers), transitions = operations executed; '
        'distinct_nontrivial = distinct histories whose last operation changed the state or was rejected')
ASSUMPTIONS = ['deleting through a structurally equal twin may either be rejected or remove the equal contained object (the statement does not '
               'say which); the model follows the implementation between these two',
               'renames that would give two contained tables the same name are not explored (the statement does not define that state)',
               'a bad position may raise IndexError; wrong argument types may raise TypeError; any rejected operation must leave the state unchanged']

# Observers are calls into the code under test and may themselves touch hidden state (a lookup cache, say).  Every history is
# therefore explored under three observer schedules: lookups in forward order, in reverse order (so a different lookup is the
# last one before the next operation), and 'quiet' (no observation at all until the history's last step).
MODE = 'fwd'
MODES = ('fwd', 'rev', 'quiet')


def _ordered(seq):
    return list(reversed(seq)) if MODE == 'rev' else list(seq)


def hidden_state(obj, known, ident):
    """Attributes of ``obj`` the harness does not know by name (a cache added by a change, for instance), canonicalised so that
    two implementation states are only merged when these agree as well."""
    def canon(v, depth=0):
        if id(v) in ident:
            return '@' + ident[id(v)]
        if isinstance(v, dict) and depth < 3:
            return sorted((repr(k), canon(x, depth + 1)) for k, x in v.items())
        if isinstance(v, (list, tuple, set, frozenset)) and depth < 3:
            items = [canon(x, depth + 1) for x in v]
            return sorted(items, key=repr) if isinstance(v, (set, frozenset)) else items
        if isinstance(v, (str, int, float, bool, type(None))):
            return v
        return type(v).__name__
    return sorted((k, canon(v)) for k, v in vars(obj).items() if k not in known)


KNOWN_DB = {'sql_renderer', 'dbml_renderer', 'tables', 'refs', 'enums', 'table_groups', 'sticky_notes', 'project', 'allow_properties'}
KNOWN_TABLE = {'database', 'name', 'schema', 'columns', 'indexes', 'alias', '_note', 'header_color', 'comment', 'abstract', 'properties'}

LIB_ERRORS = ('DatabaseValidationError', 'ColumnNotFoundError', 'IndexNotFoundError', 'ValidationError', 'TableNotFoundError',
              'UnknownDatabaseError', 'DBMLError', 'AttributeMissingError')


def bounds(tier):
    return {'depth_A': 4 if tier == 'quick' else 5, 'depth_B': 4 if tier == 'quick' else 5, 'depth_T': 5 if tier == 'quick' else 6,
            'dedup': 'per first operation, by implementation state hash'}


# ------------------------------------------------------------------------------------------------
# universes (fresh objects on every call)

def universe_A():
    from pydbml.classes import Column, Table, Reference
    U = {}

    def tab(key, name, schema='public', alias=None, cols=(('id', 'int'), ('x', 'varchar'))):
        t = Table(name, schema=schema, alias=alias)
        for n, ty in cols:
            t.add_column(Column(n, ty))
        U[key] = t
        return t
    tab('T1', 'a')
    tab('T1t', 'a')                                   # structurally equal twin of T1
    tab('T2', 'a', cols=(('id', 'int'), ('other', 'text')))   # same name, other columns
    tab('T3', 'b', alias='x')
    tab('T4', 'c', alias='x')                         # alias clash with T3
    tab('T5', 'd', alias='public.a')                  # alias equal to T1's key
    tab('T6', 'a', schema='s')
    tab('U1', 'u1')
    tab('U2', 'u2')                                   # U1, U2 are never added
    U['R1'] = Reference('>', U['T1'].columns[0], U['T3'].columns[0])
    U['R1t'] = Reference('>', U['T1'].columns[0], U['T3'].columns[0], inline=True)   # equal twin (inline differs)
    U['R3'] = Reference('<', U['T3'].columns[0], U['T6'].columns[0], name='r3')
    U['R2'] = Reference('>', U['U1'].columns[0], U['U2'].columns[0])                 # touches no table that is ever added
    return U


def universe_B():
    from pydbml.classes import Column, Table, Reference, Enum, TableGroup, Project, StickyNote
    U = {}
    for key, name in (('T1', 'a'), ('T3', 'b')):
        t = Table(name)
        t.add_column(Column('id', 'int'))
        U[key] = t
    U['R1'] = Reference('>', U['T1'].columns[0], U['T3'].columns[0])
    U['E1'] = Enum('e', ['x', 'y'])
    U['E1t'] = Enum('e', ['x', 'y'])
    U['E2'] = Enum('e', ['other'])
    U['E3'] = Enum('e', ['x', 'y'], schema='s')
    U['G1'] = TableGroup('g', [U['T1']])
    U['G1t'] = TableGroup('g', [U['T1']])
    U['G2'] = TableGroup('g', [U['T3']])
    U['G3'] = TableGroup('h', [U['T1'], U['T3']])
    U['N1'] = StickyNote('n', 'text')
    U['N2'] = StickyNote('n', 'text')
    U['P1'] = Project('p')
    U['P2'] = Project('q', items={'k': 'v'})
    U['S'] = 'a string'
    return U


KIND = {'T': 'table', 'U': 'table', 'R': 'ref', 'E': 'enum', 'G': 'group', 'N': 'note', 'P': 'project', 'S': 'str'}


def kind_of(key):
    return KIND[key[0]]


# ------------------------------------------------------------------------------------------------
# reference model for the database level

class Model:
    """What the statement says the container is: ordered lists per kind; names are those the contained tables bear now."""

    def __init__(self, U):
        self.tables, self.refs, self.enums, self.groups, self.notes = [], [], [], [], []
        self.project = None
        # mutable attributes of the universe objects the model needs (copied, then edited in lock-step)
        self.t = {}
        for k, o in U.items():
            if kind_of(k) == 'table':
                self.t[k] = {'schema': o.schema, 'name': o.name, 'alias': o.alias,
                             'cols': tuple((c.name, str(c.type)) for c in o.columns)}
        self.refdef = {}
        for k, o in U.items():
            if kind_of(k) == 'ref':
                def tk(col):
                    for kk, oo in U.items():
                        if kind_of(kk) == 'table' and col.table is oo:
                            return kk
                self.refdef[k] = (o.type, tuple((tk(c), c.name) for c in o.col1), tuple((tk(c), c.name) for c in o.col2), o.name,
                                  o.on_update, o.on_delete)
        self.enumdef = {k: (o.schema, o.name, tuple(i.name for i in o.items)) for k, o in U.items() if kind_of(k) == 'enum'}
        self.groupdef = {k: (o.name, tuple(id(i) for i in o.items)) for k, o in U.items() if kind_of(k) == 'group'}
        self.projdef = {k: (o.name, tuple(o.items.items())) for k, o in U.items() if kind_of(k) == 'project'}

    def full(self, k):
        return f"{self.t[k]['schema']}.{self.t[k]['name']}"

    def names(self, exclude=None):
        n = {}
        for k in self.tables:
            if k == exclude:
                continue
            n[self.full(k)] = k
            if self.t[k]['alias']:
                n[self.t[k]['alias']] = k
        return n

    def tcontent(self, k):
        t = self.t[k]
        return (t['schema'], t['name'], t['alias'], t['cols'])

    def rcontent(self, k):
        ty, c1, c2, name, ou, od = self.refdef[k]
        return (ty, tuple((self.full(t), c) for t, c in c1), tuple((self.full(t), c) for t, c in c2), name, ou, od)

    # -- operations: return ('ok' | 'rejected' | 'either', apply_fn or None, alt_apply_fn)
    def add(self, k):
        kd = kind_of(k)
        if kd == 'str':
            return 'rejected', None
        if kd == 'table':
            n = self.names()
            if k in self.tables or self.full(k) in n or (self.t[k]['alias'] and self.t[k]['alias'] in n) \
                    or any(self.tcontent(x) == self.tcontent(k) for x in self.tables):
                return 'rejected', None
            return 'ok', lambda: self.tables.append(k)
        if kd == 'ref':
            ty, c1, c2, *_ = self.refdef[k]
            touches = any(t in self.tables for t, _ in c1 + c2)
            if not touches or k in self.refs or any(self.rcontent(x) == self.rcontent(k) for x in self.refs):
                return 'rejected', None
            return 'ok', lambda: self.refs.append(k)
        if kd == 'enum':
            s, nme, items = self.enumdef[k]
            if k in self.enums or any(self.enumdef[x][:2] == (s, nme) for x in self.enums):
                return 'rejected', None
            return 'ok', lambda: self.enums.append(k)
        if kd == 'group':
            if k in self.groups or any(self.groupdef[x][0] == self.groupdef[k][0] for x in self.groups):
                return 'rejected', None
            return 'ok', lambda: self.groups.append(k)
        if kd == 'note':
            if k in self.notes:
                # the very note object a second time: the statement does not list it among the rejected operations, so refusing it and
                # listing it twice are both admissible here; the invariants (back-pointers of contained / removed objects) decide later
                return 'either', lambda: self.notes.append(k)
            return 'ok', lambda: self.notes.append(k)
        if kd == 'project':
            def f():
                self.project = k
            return 'ok', f

    def _delete_from(self, lst, k, content):
        """-> ('ok', fn) exact object contained; ('either', fn) only an equal twin contained; ('rejected', None)"""
        if k in lst:
            # the first contained object equal to the argument is removed: if an equal twin precedes it, either may go
            first_equal = next(x for x in lst if x == k or content(x) == content(k))
            if first_equal == k:
                return 'ok', lambda: lst.remove(k)
            return 'either-of', (lambda: lst.remove(k), lambda: lst.remove(first_equal))
        eq = [x for x in lst if content(x) == content(k)]
        if eq:
            return 'either', lambda: lst.remove(eq[0])
        return 'rejected', None

    def delete(self, k):
        kd = kind_of(k)
        if kd == 'str':
            return 'rejected', None
        if kd == 'table':
            return self._delete_from(self.tables, k, self.tcontent)
        if kd == 'ref':
            return self._delete_from(self.refs, k, self.rcontent)
        if kd == 'enum':
            return self._delete_from(self.enums, k, lambda x: self.enumdef[x])
        if kd == 'group':
            return self._delete_from(self.groups, k, lambda x: self.groupdef[x])
        if kd == 'note':
            # sticky notes compare by identity: only the very object can be removed
            if k in self.notes:
                return 'ok', lambda: self.notes.remove(k)
            return 'rejected', None
        if kd == 'project':
            if self.project is None:
                return 'rejected', None
            if self.project == k:
                return 'ok', self._unset_project
            if self.projdef[self.project] == self.projdef[k]:
                return 'either', self._unset_project
            return 'rejected', None

    def _unset_project(self):
        self.project = None

    def delete_project(self):
        if self.project is None:
            return 'rejected', None
        return 'ok', self._unset_project

    def rename_enabled(self, k, attr, val):
        if k not in self.tables:
            return True
        t = dict(self.t[k])
        t[attr] = val
        others = self.names(exclude=k)
        mine = [f"{t['schema']}.{t['name']}"] + ([t['alias']] if t['alias'] else [])
        return not any(n in others for n in mine) and len(set(mine)) == len(mine)

    def rename(self, k, attr, val):
        self.t[k][attr] = val

    def contained(self):
        out = set(self.tables) | set(self.refs) | set(self.enums) | set(self.groups) | set(self.notes)
        if self.project:
            out.add(self.project)
        return out


LOOKUP_NAMES = ['public.a', 'public.z', 's.a', 's.z', 'public.b', 'public.c', 'public.d', 'x', 'y', 'public.u1', 'nope']


def observe_db(db, U):
    """Everything the statement lets a caller observe, as JSON-able data keyed by universe keys."""
    ident = {id(o): k for k, o in U.items() if not isinstance(o, str)}

    def key(o):
        return ident.get(id(o), f'<foreign {type(o).__name__}>')
    obs = {}
    obs['iter'] = [key(t) for t in db]
    pos = []
    for i in range(len(db.tables) + 1):
        try:
            pos.append(key(db[i]))
        except IndexError:
            pos.append('IndexError')
        except Exception as e:
            pos.append('!' + type(e).__name__)
    obs['pos'] = pos
    look = {}
    for n in _ordered(LOOKUP_NAMES):
        try:
            look[n] = key(db[n])
        except KeyError:
            look[n] = 'KeyError'
        except Exception as e:
            look[n] = '!' + type(e).__name__
    obs['lookup'] = look
    obs['refs'] = [key(r) for r in db.refs]
    obs['enums'] = [key(e) for e in db.enums]
    obs['groups'] = [key(g) for g in db.table_groups]
    obs['notes'] = [key(n) for n in db.sticky_notes]
    obs['project'] = key(db.project) if db.project is not None else None
    back = {}
    for k, o in U.items():
        if isinstance(o, str):
            continue
        d = getattr(o, 'database', None)
        back[k] = 'db' if d is db else (None if d is None else 'other')
        if kind_of(k) == 'table':
            for c in o.columns:
                dc = c.database
                if (dc is db) != (d is db) or (dc is None) != (d is None):
                    back[k + '.' + c.name] = 'column.database disagrees with its table'
    obs['back'] = back
    return obs


def expected_obs(M: Model, U):
    names = M.names()
    exp = {'iter': list(M.tables), 'pos': list(M.tables) + ['IndexError'],
           'lookup': {n: names.get(n, 'KeyError') for n in LOOKUP_NAMES},
           'refs': list(M.refs), 'enums': list(M.enums), 'groups': list(M.groups), 'notes': list(M.notes), 'project': M.project}
    cont = M.contained()
    exp['back'] = {k: ('db' if k in cont else None) for k, o in U.items() if not isinstance(o, str)}
    return exp


def impl_hash(db, U, obs):
    """Canonical hash of the implementation state: observation + the internal name index + attribute values of tables."""
    ident = {id(o): k for k, o in U.items() if not isinstance(o, str)}
    td = getattr(db, 'table_dict', None)
    tdd = sorted((k, ident.get(id(v), '?')) for k, v in td.items()) if isinstance(td, dict) else repr(type(td))
    attrs = sorted((k, o.schema, o.name, o.alias) for k, o in U.items() if kind_of(k) == 'table')
    hidden = [hidden_state(db, KNOWN_DB | {'table_dict'}, ident)] + \
             [(k, hidden_state(o, KNOWN_TABLE, ident)) for k, o in U.items() if kind_of(k) == 'table']
    return digest([obs, tdd, attrs, hidden])


# operations of universe A / B: ('add', key) ('delete', key) ('delete_project',) ('rename', key, attr, val)

def ops_A():
    ops = []
    for k in ('T1', 'T1t', 'T2', 'T3', 'T4', 'T5', 'T6'):
        ops.append(('add', k))
        ops.append(('delete', k))
    for k in ('R1', 'R1t', 'R3', 'R2'):
        ops.append(('add', k))
        ops.append(('delete', k))
    ops += [('rename', 'T1', 'name', 'z'), ('rename', 'T1', 'name', 'a'), ('rename', 'T1', 'schema', 's'), ('rename', 'T1', 'schema', 'public'),
            ('rename', 'T3', 'alias', 'y'), ('rename', 'T3', 'alias', None), ('rename', 'T3', 'alias', 'x'), ('rename', 'T6', 'schema', 'public')]
    return ops


def ops_B():
    ops = []
    for k in ('T1', 'T3', 'R1', 'E1', 'E1t', 'E2', 'E3', 'G1', 'G1t', 'G2', 'G3', 'N1', 'N2', 'P1', 'P2', 'S'):
        ops.append(('add', k))
        ops.append(('delete', k))
    ops.append(('delete_project',))
    return ops


def apply_impl(db, U, op):
    """-> ('ok', None) | ('raised', exception)"""
    if op[0] == 'lookup':
        try:
            db[op[1]]
        except Exception:
            pass
        return 'ok', None
    try:
        if op[0] == 'add':
            db.add(U[op[1]])
        elif op[0] == 'delete':
            db.delete(U[op[1]])
        elif op[0] == 'delete_project':
            db.delete_project()
        elif op[0] == 'rename':
            setattr(U[op[1]], op[2], op[3])
        return 'ok', None
    except Exception as e:
        return 'raised', e


def step_db(universe_fn, hist, opsfn):
    """Replay ``hist`` on a fresh universe + model.  -> (problems, db, U, M, last_changed, impl_state_hash)
    problems: list of (kind, detail, expected, observed).  Stops at the first problem."""
    from pydbml import Database
    U = universe_fn()
    db = Database()
    M = Model(U)
    obs = observe_db(db, U)
    h = digest([impl_hash(db, U, obs)])
    changed = False
    for n, op in enumerate(hist):
        before = h
        prev_obs = obs
        hid_pre = impl_hash(db, U, None)     # internal state right before the operation
        quiet = MODE == 'quiet' and n < len(hist) - 1
        if op[0] == 'rename':
            M.rename(op[1], op[2], op[3])
            out, exc = apply_impl(db, U, op)
            verdict, fn = 'ok', None
        elif op[0] == 'lookup':
            out, exc = apply_impl(db, U, op)
            verdict, fn = 'ok', None
        else:
            verdict, fn = (M.delete_project() if op[0] == 'delete_project' else getattr(M, op[0])(op[1]))
            if verdict == 'skip':
                return 'skip', db, U, M, False, h
            out, exc = apply_impl(db, U, op)
        if quiet:
            # no observer runs between the operations: only the outcome class is compared here, the state at the end
            if verdict == 'either-of':
                return 'skip', db, U, M, False, h
            if out == 'raised' and type(exc).__name__ != 'DatabaseValidationError':
                return [('wrong-exception', f'step {n} {op}: raised {type(exc).__name__}: {str(exc)[:100]}', 'DatabaseValidationError', exc_info(exc))], db, U, M, changed, h
            if verdict == 'ok' and out != 'ok':
                return [('valid-operation-rejected', f'step {n} {op}: rejected with {type(exc).__name__}: {str(exc)[:100]}', 'accepted', exc_info(exc))], db, U, M, changed, h
            if verdict == 'rejected' and out == 'ok':
                return [('invalid-operation-accepted', f'step {n} {op}: accepted, the model rejects it', 'DatabaseValidationError', 'no exception')], db, U, M, changed, h
            if out == 'ok' and fn:
                fn()
            continue
        hid_post = impl_hash(db, U, None)    # internal state right after the operation, before any observer runs
        obs = observe_db(db, U)
        # the state exploration continues from: in quiet mode the one before the observers ran, otherwise the one they left
        h = digest([impl_hash(db, U, obs), hid_post if MODE == 'quiet' else None])
        changed = (obs != prev_obs) or (hid_pre != hid_post)
        where = f'step {n} {op}'
        if out == 'raised' and type(exc).__name__ != 'DatabaseValidationError':
            return [('wrong-exception', f'{where}: raised {type(exc).__name__}: {str(exc)[:100]} (a rejected operation raises the validation error)',
                     'DatabaseValidationError' if verdict != 'ok' else 'no exception', exc_info(exc))], db, U, M, changed, h
        unknown_before = MODE == 'quiet' and n > 0
        if verdict == 'ok':
            if out != 'ok':
                return [('valid-operation-rejected', f'{where}: rejected with {type(exc).__name__}: {str(exc)[:100]}', 'accepted', exc_info(exc))], db, U, M, changed, h
            if fn:
                fn()
        elif verdict == 'rejected':
            if out == 'ok':
                return [('invalid-operation-accepted', f'{where}: accepted, the model rejects it', 'DatabaseValidationError', 'no exception')], db, U, M, changed, h
            if changed and not unknown_before:
                return [('rejected-operation-changed-state', f'{where}: raised {type(exc).__name__} but the database changed', 'state unchanged', obs)], db, U, M, changed, h
        elif verdict == 'either':
            if out == 'ok':
                fn()
            elif changed and not unknown_before:
                return [('rejected-operation-changed-state', f'{where}: raised {type(exc).__name__} but the database changed', 'state unchanged', obs)], db, U, M, changed, h
        elif verdict == 'either-of':
            if out != 'ok':
                return [('valid-operation-rejected', f'{where}: rejected with {type(exc).__name__}', 'accepted', exc_info(exc))], db, U, M, changed, h
            # choose the alternative the implementation took (both are admissible)
            import copy
            snap = (list(M.tables), list(M.refs), list(M.enums), list(M.groups))
            fn[0]()
            if _mismatch(expected_obs(M, U), obs):
                M.tables[:], M.refs[:], M.enums[:], M.groups[:] = snap
                fn[1]()
        exp = expected_obs(M, U)
        mm = _mismatch(exp, obs)
        if mm:
            return [('state-differs', f'{where}: {mm[0]}', {k: exp[k] for k, *_ in mm_keys(mm)}, {k: obs[k] for k, *_ in mm_keys(mm)})], db, U, M, changed, h
    return [], db, U, M, changed, h


def mm_keys(mm):
    return [(m.split(':')[0],) for m in mm]


def _mismatch(exp, obs):
    out = []
    for k in exp:
        if exp[k] != obs[k]:
            if isinstance(exp[k], dict):
                for kk in exp[k]:
                    if exp[k][kk] != obs[k].get(kk):
                        out.append(f'{k}: [{kk!r}] is {obs[k].get(kk)!r}, expected {exp[k][kk]!r}')
                for kk in obs[k]:
                    if kk not in exp[k]:
                        out.append(f'{k}: [{kk!r}] {obs[k][kk]!r}')
            else:
                out.append(f'{k}: is {obs[k]!r}, expected {exp[k]!r}')
    return out


def enabled_db(M, ops):
    out = []
    for op in ops:
        if op[0] == 'rename':
            if M.t[op[1]][op[2]] == op[3]:
                continue
            if not M.rename_enabled(op[1], op[2], op[3]):
                continue
        out.append(op)
    return out


def bfs_db(p, universe_fn, ops, first, depth, label):
    seen = set()
    q = deque([(first,)])
    while q:
        hist = q.popleft()
        probs, db, U, M, changed, h = step_db(universe_fn, hist, ops)
        if probs == 'skip':
            continue
        p['transitions'] += 1
        p['evaluations'] += 1
        p['traces'] += 1
        if probs:
            kind, detail, exp, got = probs[0]
            p['outcomes'][f'{label}/{kind}'] += 1
            p['violations'].append(violation(PID, kind, {'universe': label, 'history': [list(o) for o in hist], 'observers': MODE}, expected=exp, observed=got,
                                             detail=detail))
            continue
        p['outcomes'][f'{label}/{hist[-1][0]}/' + ('changed' if changed else 'unchanged-or-rejected')] += 1
        p['nontrivial'].add(digest([label, MODE, hist]))
        skey = (h, trailing_lookups(hist))
        if skey in seen:
            continue
        seen.add(skey)
        p['states'] += 1
        if len(hist) < depth:
            for op in enabled_db(M, ops):
                q.append(hist + (op,))
            if MODE == 'quiet' and label == 'A' and len(trailing_lookups(hist)) < 2:
                for op in LOOKUPS_A:
                    q.append(hist + (op,))
    return len(seen)


# ------------------------------------------------------------------------------------------------
# table level

def universe_T():
    from pydbml.classes import Column, Table, Index
    U = {}
    t = Table('t')
    for n in ('c1', 'c2', 'c3'):
        c = Column(n, 'int')
        t.add_column(c)
        U[n] = c
    U['t'] = t
    twin_t = Table('t')
    c1t = Column('c1', 'int')
    twin_t.add_column(c1t)
    U['c1t'] = c1t                      # structurally equal to c1, owned by a table with the same full name
    U['twin_t'] = twin_t
    other = Table('other')
    f = Column('f', 'int')
    other.add_column(f)
    U['f'] = f
    U['other'] = other
    U['n'] = Column('n', 'text')         # fresh, unowned
    i1 = Index([U['c1']], name='i1')
    i2 = Index([U['c1'], U['c2']], unique=True)
    t.add_index(i1)
    t.add_index(i2)
    U['i1'], U['i2'] = i1, i2
    U['i1t'] = Index([U['c1']], name='i1')      # equal twin of i1, unowned
    U['inew'] = Index([U['c2']], name='inew')
    U['iforeign'] = Index([U['f']])
    U['imixed'] = Index([U['c1'], U['f']])
    U['iabsent'] = Index([U['c3']], name='absent')
    return U


OPS_T = ([('add_column', k) for k in ('n', 'c1', 'c2', 'i1')] +
         [('delete_column', k) for k in ('c1', 'c2', 'c3', 'c1t', 'n', 'f')] +
         [('delete_column_pos', i) for i in (0, 1, 2, 7)] +
         [('add_index', k) for k in ('inew', 'iforeign', 'imixed', 'i1', 'c1')] +
         [('delete_index', k) for k in ('i1', 'i2', 'i1t', 'iabsent', 'inew')] +
         [('delete_index_pos', i) for i in (0, 1, 5)])


LOOKUPS_T = [('lookup', 'c1'), ('lookup', 'c2'), ('lookup', 'n')]
LOOKUPS_A = [('lookup', 'public.a'), ('lookup', 'x'), ('lookup', 'public.z')]


def trailing_lookups(hist):
    out = []
    for op in reversed(hist):
        if op[0] != 'lookup':
            break
        out.append(op)
    return tuple(out)


class TModel:
    def __init__(self):
        self.cols = ['c1', 'c2', 'c3']
        self.idx = ['i1', 'i2']
        self.owner = {'c1': 't', 'c2': 't', 'c3': 't', 'c1t': 'twin_t', 'f': 'other', 'n': None}
        self.iowner = {'i1': 't', 'i2': 't', 'i1t': None, 'inew': None, 'iforeign': None, 'imixed': None, 'iabsent': None}
        self.subjects = {'i1': ['c1'], 'i2': ['c1', 'c2'], 'i1t': ['c1'], 'inew': ['c2'], 'iforeign': ['f'], 'imixed': ['c1', 'f'], 'iabsent': ['c3']}

    def ccontent(self, k):
        # structural identity of a column as the statement can see it: name + the full name of its owner table
        own = self.owner[k]
        name = {'c1t': 'c1'}.get(k, k)
        return (name, 't' if own in ('t', 'twin_t') else own)

    def icontent(self, k):
        return {'i1': 'I1', 'i1t': 'I1'}.get(k, k)

    def op(self, op):
        """-> (verdict, fn)  verdict: ok | rejected | either | typeerror | any-unchanged"""
        kind, a = op
        if kind == 'lookup':
            return 'lookup', None
        if kind == 'add_column':
            if a == 'i1':
                return 'typeerror', None
            if a in self.cols:
                # adding a column that is already in the table: not addressed by the statement -> not explored
                return 'skip', None

            def f():
                self.cols.append(a)
                self.owner[a] = 't'
            return 'ok', f
        if kind == 'delete_column':
            if a in self.cols:
                def f():
                    self.cols.remove(a)
                    self.owner[a] = None
                return 'ok', f
            eq = [x for x in self.cols if self.ccontent(x) == self.ccontent(a)]
            if eq:
                def f():
                    self.cols.remove(eq[0])
                    self.owner[eq[0]] = None
                return 'either', f
            return 'rejected', None
        if kind == 'delete_column_pos':
            if a < len(self.cols):
                def f():
                    k = self.cols.pop(a)
                    self.owner[k] = None
                return 'ok', f
            return 'badpos', None
        if kind == 'add_index':
            if a == 'c1':
                return 'typeerror', None
            if a in self.idx:
                return 'skip', None
            if any(self.owner[s] != 't' for s in self.subjects[a]):
                return 'rejected', None

            def f():
                self.idx.append(a)
                self.iowner[a] = 't'
            return 'ok', f
        if kind == 'delete_index':
            if a in self.idx:
                first = next(x for x in self.idx if x == a or self.icontent(x) == self.icontent(a))

                def f():
                    self.idx.remove(a)
                    self.iowner[a] = None
                if first == a:
                    return 'ok', f

                def g():
                    self.idx.remove(first)
                    self.iowner[first] = None
                return 'either-of', (f, g)
            eq = [x for x in self.idx if self.icontent(x) == self.icontent(a)]
            if eq:
                def f():
                    self.idx.remove(eq[0])
                    self.iowner[eq[0]] = None
                return 'either', f
            return 'rejected', None
        if kind == 'delete_index_pos':
            if a < len(self.idx):
                def f():
                    k = self.idx.pop(a)
                    self.iowner[k] = None
                return 'ok', f
            return 'badpos', None

    def expected(self):
        names = {}
        for k in self.cols:
            names.setdefault({'c1t': 'c1'}.get(k, k), k)
        return {'columns': list(self.cols), 'indexes': list(self.idx),
                'pos': list(self.cols) + ['IndexError'],
                'byname': {n: names.get(n, 'ColumnNotFoundError') for n in ('c1', 'c2', 'c3', 'n', 'f', 'zz')},
                'get': {n: names.get(n) for n in ('c1', 'c2', 'c3', 'n', 'f', 'zz')},
                'col_owner': dict(self.owner), 'idx_owner': dict(self.iowner)}   # ('hidden' is hashed, not compared)


def observe_T(U):
    t = U['t']
    ident = {id(o): k for k, o in U.items()}

    def key(o):
        return ident.get(id(o), f'<foreign {type(o).__name__}>') if o is not None else None
    obs = {'columns': [key(c) for c in t.columns], 'indexes': [key(i) for i in t.indexes]}
    obs['columns_iter'] = [key(c) for c in t]
    pos = []
    for i in range(len(t.columns) + 1):
        try:
            pos.append(key(t[i]))
        except IndexError:
            pos.append('IndexError')
        except Exception as e:
            pos.append('!' + type(e).__name__)
    obs['pos'] = pos
    byname, get = {}, {}
    for n in _ordered(('c1', 'c2', 'c3', 'n', 'f', 'zz')):
        try:
            byname[n] = key(t[n])
        except Exception as e:
            byname[n] = type(e).__name__
    for n in _ordered(('c1', 'c2', 'c3', 'n', 'f', 'zz')):
        try:
            get[n] = key(t.get(n))
        except Exception as e:
            get[n] = '!' + type(e).__name__
    obs['byname'], obs['get'] = byname, get
    obs['col_owner'] = {k: key(U[k].table) for k in ('c1', 'c2', 'c3', 'c1t', 'f', 'n')}
    obs['idx_owner'] = {k: key(U[k].table) for k in ('i1', 'i2', 'i1t', 'inew', 'iforeign', 'imixed', 'iabsent')}
    obs['hidden'] = hidden_state(t, KNOWN_TABLE, ident)
    return obs


def apply_T(U, op):
    t = U['t']
    kind, a = op
    if kind == 'lookup':
        try:
            t[a]
        except Exception:
            pass
        return 'ok', None
    try:
        if kind == 'add_column':
            t.add_column(U[a])
        elif kind == 'delete_column':
            t.delete_column(U[a])
        elif kind == 'delete_column_pos':
            t.delete_column(a)
        elif kind == 'add_index':
            t.add_index(U[a])
        elif kind == 'delete_index':
            t.delete_index(U[a])
        elif kind == 'delete_index_pos':
            t.delete_index(a)
        return 'ok', None
    except Exception as e:
        return 'raised', e


def step_T(hist):
    U = universe_T()
    M = TModel()
    ident = {id(o): k for k, o in U.items()}
    obs = observe_T(U)
    h = digest([obs])
    changed = False
    for n, op in enumerate(hist):
        before = h
        prev_obs = obs
        hid_pre = hidden_state(U['t'], KNOWN_TABLE, ident)
        verdict, fn = M.op(op)
        if verdict == 'skip':
            return 'skip', None, M, False, h
        quiet = MODE == 'quiet' and n < len(hist) - 1
        if quiet and verdict == 'either-of':
            return 'skip', None, M, False, h
        out, exc = apply_T(U, op)
        if not quiet:
            # hidden attributes are snapshotted before the observers run (which may themselves rebuild or drop a cache)
            hid_post = hidden_state(U['t'], KNOWN_TABLE, ident)
            obs = observe_T(U)
            h = digest([obs, hid_post if MODE == 'quiet' else None])
            changed = ({k: v for k, v in obs.items() if k != 'hidden'} != {k: v for k, v in prev_obs.items() if k != 'hidden'}) or hid_pre != hid_post
        if verdict == 'lookup':
            verdict, fn = 'ok', (lambda: None)
        unknown_before = MODE == 'quiet' and n > 0
        where = f'step {n} {op}'
        en = type(exc).__name__ if exc is not None else None
        if out == 'raised':
            allowed = {'rejected': LIB_ERRORS, 'either': LIB_ERRORS, 'typeerror': ('TypeError',), 'badpos': ('IndexError',) + LIB_ERRORS}.get(verdict, ())
            if verdict in ('ok', 'either-of'):
                return [('valid-operation-rejected', f'{where}: raised {en}: {str(exc)[:100]}', 'accepted', exc_info(exc))], U, M, changed, h
            if en not in allowed:
                return [('wrong-exception', f'{where}: raised {en}: {str(exc)[:100]}, expected one of {allowed}', list(allowed), exc_info(exc))], U, M, changed, h
            if changed and not quiet and not unknown_before:
                return [('rejected-operation-changed-state', f'{where}: raised {en} but the table / back-pointers changed', 'state unchanged', obs)], U, M, changed, h
        else:
            if verdict in ('rejected', 'typeerror', 'badpos'):
                return [('invalid-operation-accepted', f'{where}: accepted, the model rejects it ({verdict})', verdict, 'no exception')], U, M, changed, h
            if verdict in ('ok', 'either'):
                fn()
            elif verdict == 'either-of':
                snap = (list(M.idx), dict(M.iowner))
                fn[0]()
                e0 = M.expected()
                if any(e0[k] != obs[k] for k in e0):
                    M.idx, M.iowner = snap[0], snap[1]
                    fn[1]()
        if quiet:
            continue
        exp = M.expected()
        exp['columns_iter'] = exp['columns']
        mm = _mismatch(exp, obs)
        if mm:
            return [('state-differs', f'{where}: {mm[0]}', {k: exp[k.split(":")[0]] for k in mm[:2]}, {k: obs[k.split(":")[0]] for k in mm[:2]})], U, M, changed, h
    return [], U, M, changed, h


def bfs_T(p, first, depth):
    seen = set()
    q = deque([(first,)])
    while q:
        hist = q.popleft()
        probs, U, M, changed, h = step_T(hist)
        if probs == 'skip':
            continue
        p['transitions'] += 1
        p['evaluations'] += 1
        p['traces'] += 1
        if probs:
            kind, detail, exp, got = probs[0]
            p['outcomes'][f'T/{kind}'] += 1
            p['violations'].append(violation(PID, kind, {'universe': 'T', 'history': [list(o) for o in hist], 'observers': MODE}, expected=exp, observed=got, detail=detail))
            continue
        p['outcomes'][f'T/{hist[-1][0]}/' + ('changed' if changed else 'unchanged-or-rejected')] += 1
        p['nontrivial'].add(digest(['T', MODE, hist]))
        # a state reached through lookups is kept apart from the same observable state without them (a lookup may warm a cache
        # that no attribute shows); at most two lookups in a row
        skey = (h, trailing_lookups(hist))
        if skey in seen:
            continue
        seen.add(skey)
        p['states'] += 1
        if len(hist) < depth:
            for op in OPS_T:
                q.append(hist + (op,))
            if MODE == 'quiet' and len(trailing_lookups(hist)) < 2:
                for op in LOOKUPS_T:
                    q.append(hist + (op,))


# ------------------------------------------------------------------------------------------------

def units(tier, seed):
    b = bounds(tier)
    us = []
    for mode in MODES:
        for op in ops_A():
            us.append(('A', op, b['depth_A'], mode))
        for op in ops_B():
            us.append(('B', op, b['depth_B'], mode))
        for op in OPS_T:
            us.append(('T', op, b['depth_T'], mode))
    return us


def work(unit):
    global MODE
    label, first, depth, MODE = unit
    p = new_part()
    if label == 'A':
        if first in enabled_db(Model(universe_A()), ops_A()):
            bfs_db(p, universe_A, ops_A(), first, depth, 'A')
    elif label == 'B':
        bfs_db(p, universe_B, ops_B(), first, depth, 'B')
    else:
        bfs_T(p, first, depth)
    p['samples'].append({'universe': label, 'first_operation': list(first), 'depth': depth, 'observers': MODE})
    return p


def replay(case):
    global MODE
    MODE = case.get('observers', 'fwd')
    hist = tuple(tuple(o) for o in case['history'])
    out = []
    if case['universe'] == 'T':
        probs, *_ = step_T(hist)
        if probs == 'skip':
            probs = []
    else:
        probs, *_ = step_db(universe_A if case['universe'] == 'A' else universe_B, hist, None)
        if probs == 'skip':
            probs = []
    for kind, detail, exp, got in probs:
        out.append(violation(PID, kind, case, expected=exp, observed=got, detail=detail))
    return out
