"""C10 — renderings always reflect the current state of the model after edits.

Explicit-state exploration of edit histories: a state is (live database, abstract model) edited in lock-step by
the same edit; the transition function is the real attribute assignment / add / delete on the live objects.
Oracle (differential, no hand-written expectation): after the history, `.dbml` and `.sql` of the database and of
every element equal those of a database freshly built from the final abstract content (builder.build), element
by element.  Histories are explored with a rendering between the edits (so any cache is populated before the
next edit) and without.
"""
from __future__ import annotations

import itertools

from .. import asm as A
from .. import builder, writer
from ..runner import new_part, violation, digest, exc_info

PID = 'C10'
LEVEL = 'model_checking'
RULE = ('all edit histories up to the depth bound over the edit alphabet (renames of table/schema/column/enum/enum schema/group/project, '
        'type changes str<->enum, flag toggles, defaults of every kind, notes, aliases, reference kind/inline/name/actions, add column/index/'
        'enum item, delete index, colours) from API-built and parsed start databases, with and without renderings between the edits; '
        'states = histories executed on the real objects, transitions = edits applied; distinct_nontrivial = distinct (start, history, '
        'mode) whose final renderings were compared element by element with a fresh build')
ASSUMPTIONS = ['verif/builder.py builds the comparison database through the public classes only',
               'edits mirror each other on the live objects and on the abstract model (verif/props/c10.py EDITS)',
               'histories are not merged by model content: two histories reaching the same content are both executed (a stale cache is '
               'exactly a difference between them)']


def bounds(tier):
    return {'depth_with_renders_between': 2 if tier == 'quick' else 3, 'depth_without_renders': 2,
            'depth3_first_edits': 'render-sensitive subset' if tier == 'quick' else 'all',
            'starts': ['api', 'parsed'], 'edits': len(EDITS)}


# ------------------------------------------------------------------------------------------------
# start model

def start_model():
    e = A.enum('e', [A.item('x'), A.item('y', note='why')])
    e2 = A.enum('e2', ['z'], schema='s')
    a = A.table('a', [A.col('id', 'int', pk=True), A.col('name', 'varchar', note='the name', unique=True),
                      A.col('status', ['enum', 'public', 'e'], default=['str', 'x'])],
                alias='al', note='table a', header_color='#aabbcc',
                indexes=[A.index(['id', 'name'], unique=True), A.index(['name'], name='by_name', type_='hash', note='ixn'),
                         A.index([['expr', 'lower(name)']])])
    b = A.table('b', [A.col('id', 'int', pk=True), A.col('a_id', 'int', not_null=True), A.col('a_name', 'varchar')])
    c = A.table('c', [A.col('id', 'uuid'), A.col('x', 'text')], schema='s')
    refs = [A.ref('>', [['public', 'b', 'a_id']], [['public', 'a', 'id']], inline=True),
            A.ref('>', [['public', 'b', 'a_id'], ['public', 'b', 'a_name']], [['public', 'a', 'id'], ['public', 'a', 'name']], name='fk_comp'),
            A.ref('<>', [['public', 'a', 'id']], [['s', 'c', 'id']]),
            A.ref('<', [['s', 'c', 'x']], [['public', 'a', 'name']], on_update='cascade', on_delete='set null')]
    return A.model(tables=[a, b, c], enums=[e, e2], refs=refs, groups=[A.group('g', [['public', 'a'], ['s', 'c']], note='gn')],
                   notes=[A.sticky('n', 'sticky')], project=A.project('p', [['k', 'v']], note='pn'))


def c10_model():
    """the start model of this check: as start_model(), but the many-to-many reference is *constructed* with inline=True (written as
    `ref: <> s.c.id` in the column's settings on the parsed route); the flag has no effect until the reference's type is edited"""
    m = start_model()
    m['refs'][2]['inline'] = True
    # keep the model's reference order equal to the order the parser produces (document order: the inline references of table a,
    # then those of table b, then the standalone ones), so that refs[i] means the same reference on both routes
    r = m['refs']
    m['refs'] = [r[2], r[0], r[1], r[3]]
    return m


# ------------------------------------------------------------------------------------------------
# edits: (name, live(db), model(m)).  Positions are indices; edits never reorder.

def _retarget(m, old, new):
    """table (schema, name) renamed: update every endpoint triple and group item"""
    for r in m['refs']:
        for side in ('col1', 'col2'):
            for ep in r[side]:
                if (ep[0], ep[1]) == old:
                    ep[0], ep[1] = new
    for g in m['groups']:
        for it in g['items']:
            if tuple(it) == old:
                it[0], it[1] = new


def e_table_name(ti, new):
    def live(db):
        db.tables[ti].name = new

    def model(m):
        t = m['tables'][ti]
        old = (t['schema'], t['name'])
        t['name'] = new
        _retarget(m, old, (t['schema'], new))
    return (f'tables[{ti}].name={new!r}', live, model)


def e_table_schema(ti, new):
    def live(db):
        db.tables[ti].schema = new

    def model(m):
        t = m['tables'][ti]
        old = (t['schema'], t['name'])
        t['schema'] = new
        _retarget(m, old, (new, t['name']))
    return (f'tables[{ti}].schema={new!r}', live, model)


def e_col_name(ti, ci, new):
    def live(db):
        db.tables[ti].columns[ci].name = new

    def model(m):
        t = m['tables'][ti]
        old = t['columns'][ci]['name']
        t['columns'][ci]['name'] = new
        for r in m['refs']:
            for side in ('col1', 'col2'):
                for ep in r[side]:
                    if (ep[0], ep[1], ep[2]) == (t['schema'], t['name'], old):
                        ep[2] = new
        for i in t['indexes']:
            for s in i['subjects']:
                if s[0] == 'col' and s[1] == old:
                    s[1] = new
    return (f'tables[{ti}].columns[{ci}].name={new!r}', live, model)


def e_enum_attr(ei, attr, new):
    def live(db):
        setattr(db.enums[ei], attr, new)

    def model(m):
        e = m['enums'][ei]
        old = (e['schema'], e['name'])
        e[attr] = new
        for t in m['tables']:
            for c in t['columns']:
                if c['type'][0] == 'enum' and (c['type'][1], c['type'][2]) == old:
                    c['type'] = ['enum', e['schema'], e['name']]
    return (f'enums[{ei}].{attr}={new!r}', live, model)


def e_col_type(ti, ci, new):
    """new: ['str', text] or ['enumidx', k]"""
    def live(db):
        db.tables[ti].columns[ci].type = db.enums[new[1]] if new[0] == 'enumidx' else new[1]

    def model(m):
        if new[0] == 'enumidx':
            e = m['enums'][new[1]]
            m['tables'][ti]['columns'][ci]['type'] = ['enum', e['schema'], e['name']]
        else:
            m['tables'][ti]['columns'][ci]['type'] = ['str', new[1]]
    return (f'tables[{ti}].columns[{ci}].type={new!r}', live, model)


def e_col_flag(ti, ci, flag, val):
    def live(db):
        setattr(db.tables[ti].columns[ci], flag, val)

    def model(m):
        m['tables'][ti]['columns'][ci][flag] = val
    return (f'tables[{ti}].columns[{ci}].{flag}={val!r}', live, model)


def e_col_default(ti, ci, d):
    def live(db):
        db.tables[ti].columns[ci].default = builder.untag_default(d)

    def model(m):
        m['tables'][ti]['columns'][ci]['default'] = list(d)
    return (f'tables[{ti}].columns[{ci}].default={d!r}', live, model)


def _mknote(text):
    from pydbml.classes import Note
    return Note(text)


def e_note(path, text):
    """path: ('table', ti) | ('col', ti, ci) | ('index', ti, ii) | ('item', ei, k) | ('project',)"""
    def obj(db):
        if path[0] == 'table':
            return db.tables[path[1]]
        if path[0] == 'col':
            return db.tables[path[1]].columns[path[2]]
        if path[0] == 'index':
            return db.tables[path[1]].indexes[path[2]]
        if path[0] == 'item':
            return db.enums[path[1]].items[path[2]]
        return db.project

    def live(db):
        if path[0] == 'index' and path[2] >= len(db.tables[path[1]].indexes):
            return
        obj(db).note = _mknote(text)

    def model(m):
        if path[0] == 'table':
            m['tables'][path[1]]['note'] = text
        elif path[0] == 'col':
            m['tables'][path[1]]['columns'][path[2]]['note'] = text
        elif path[0] == 'index':
            if path[2] < len(m['tables'][path[1]]['indexes']):
                m['tables'][path[1]]['indexes'][path[2]]['note'] = text
        elif path[0] == 'item':
            m['enums'][path[1]]['items'][path[2]]['note'] = text
        else:
            m['project']['note'] = text
    return (f'{path}.note={text!r}', live, model)


def e_moved_note(ti, text):
    """assign a Note object that already belonged to another (discarded) table"""
    def live(db):
        from pydbml.classes import Table
        tmp = Table('discarded', note=text)
        db.tables[ti].note = tmp.note

    def model(m):
        m['tables'][ti]['note'] = text
    return (f'tables[{ti}].note=<Note taken from a discarded table>', live, model)


def e_note_text_inplace(ti, text):
    """edit the text of the table's existing Note object in place (the placeholder note of a table declared without one, too)"""
    def live(db):
        db.tables[ti].note.text = text

    def model(m):
        m['tables'][ti]['note'] = text
    return (f'tables[{ti}].note.text={text!r}', live, model)


def e_table_attr(ti, attr, val):
    def live(db):
        setattr(db.tables[ti], attr, val)

    def model(m):
        m['tables'][ti][attr] = val
    return (f'tables[{ti}].{attr}={val!r}', live, model)


def e_ref_attr(ri, attr, val):
    def live(db):
        setattr(db.refs[ri], attr, val)

    def model(m):
        m['refs'][ri][attr] = val
    return (f'refs[{ri}].{attr}={val!r}', live, model)


def e_add_column(ti, name, ty):
    def live(db):
        from pydbml.classes import Column
        db.tables[ti].add_column(Column(name, ty))

    def model(m):
        m['tables'][ti]['columns'].append(A.col(name, ty))
    return (f'tables[{ti}].add_column({name!r})', live, model)


def e_add_index(ti, ci, unique):
    def live(db):
        from pydbml.classes import Index
        t = db.tables[ti]
        t.add_index(Index([t.columns[ci]], unique=unique))

    def model(m):
        t = m['tables'][ti]
        t['indexes'].append(A.index([t['columns'][ci]['name']], unique=unique))
    return (f'tables[{ti}].add_index(over column {ci})', live, model)


def e_del_index(ti, ii):
    def live(db):
        t = db.tables[ti]
        if ii < len(t.indexes):
            t.delete_index(ii)

    def model(m):
        t = m['tables'][ti]
        if ii < len(t['indexes']):
            t['indexes'].pop(ii)
    return (f'tables[{ti}].delete_index({ii})', live, model)


def e_add_item(ei, name):
    def live(db):
        db.enums[ei].add_item(name)

    def model(m):
        m['enums'][ei]['items'].append(A.item(name))
    return (f'enums[{ei}].add_item({name!r})', live, model)


def e_item_name(ei, k, name):
    def live(db):
        db.enums[ei].items[k].name = name

    def model(m):
        m['enums'][ei]['items'][k]['name'] = name
    return (f'enums[{ei}].items[{k}].name={name!r}', live, model)


def e_group_attr(gi, attr, val):
    def live(db):
        setattr(db.table_groups[gi], attr, val)

    def model(m):
        m['groups'][gi][attr] = val
    return (f'table_groups[{gi}].{attr}={val!r}', live, model)


def e_project_name(val):
    def live(db):
        db.project.name = val

    def model(m):
        m['project']['name'] = val
    return (f'project.name={val!r}', live, model)


def e_index_attr(ti, ii, attr, val):
    def live(db):
        t = db.tables[ti]
        if ii < len(t.indexes):
            setattr(t.indexes[ii], attr, val)

    def model(m):
        t = m['tables'][ti]
        if ii < len(t['indexes']):
            t['indexes'][ii]['type' if attr == 'type' else attr] = val
    return (f'tables[{ti}].indexes[{ii}].{attr}={val!r}', live, model)


def _edits():
    E = []
    E.append(e_table_name(0, 'a2'))
    E.append(e_table_name(2, 'a'))                 # s.c -> s.a : now collides with public.a by bare name
    E.append(e_table_name(1, 'my table'))
    E.append(e_table_schema(0, 's'))
    E.append(e_table_schema(2, 'public'))
    E.append(e_col_name(0, 0, 'ident'))            # referenced by inline, composite, <> refs and an index
    E.append(e_col_name(0, 1, 'full name'))
    E.append(e_col_name(1, 1, 'aid'))
    E.append(e_col_name(2, 0, 'cid'))
    E.append(e_enum_attr(0, 'name', 'e9'))
    E.append(e_enum_attr(0, 'schema', 's9'))
    E.append(e_enum_attr(1, 'name', 'e'))
    E.append(e_col_type(0, 0, ['str', 'bigint']))  # a.id: target of refs; join table typing
    E.append(e_col_type(2, 0, ['str', 'int']))
    E.append(e_col_type(0, 2, ['str', 'int']))     # enum -> str
    E.append(e_col_type(0, 1, ['enumidx', 1]))     # str -> enum
    E.append(e_col_flag(0, 1, 'pk', True))         # second pk column: composite
    E.append(e_col_flag(0, 0, 'pk', False))
    E.append(e_col_flag(1, 1, 'pk', True))
    E.append(e_col_flag(1, 1, 'unique', True))
    E.append(e_col_flag(1, 1, 'not_null', False))
    E.append(e_col_flag(1, 2, 'autoinc', True))
    E.append(e_col_default(0, 1, ['str', 'dflt']))
    E.append(e_col_default(0, 1, ['int', 5]))
    E.append(e_col_default(0, 1, ['bool', True]))
    E.append(e_col_default(0, 1, ['expr', 'now()']))
    E.append(e_col_default(0, 2, ['none']))
    E.append(e_note(('table', 0), 'changed'))
    E.append(e_note(('table', 0), ''))
    E.append(e_note(('table', 1), 'new b note'))
    E.append(e_note(('col', 0, 1), ''))
    E.append(e_note(('col', 1, 1), 'col note'))
    E.append(e_note(('index', 0, 1), ''))
    E.append(e_note(('index', 0, 0), 'new ix note'))
    E.append(e_note(('item', 0, 0), 'item note'))
    E.append(e_note(('project',), 'proj'))
    E.append(e_table_attr(0, 'alias', 'zz'))
    E.append(e_table_attr(0, 'alias', None))
    E.append(e_table_attr(2, 'alias', 'cc'))
    E.append(e_table_attr(1, 'header_color', '#123'))
    E.append(e_ref_attr(0, 'type', '<'))
    E.append(e_ref_attr(0, 'type', '-'))
    E.append(e_ref_attr(1, 'type', '<>'))
    E.append(e_ref_attr(2, 'type', '>'))
    E.append(e_ref_attr(3, 'type', '-'))
    E.append(e_ref_attr(0, 'inline', False))
    E.append(e_ref_attr(3, 'inline', True))
    E.append(e_ref_attr(2, 'inline', True))         # asked for while the reference is <> (no effect yet); matters once its type changes
    E.append(e_moved_note(1, 'moved note'))
    E.append(e_note_text_inplace(1, 'typed into the placeholder note'))
    E.append(e_note_text_inplace(0, 'edited in place'))
    E.append(e_ref_attr(1, 'name', None))
    E.append(e_ref_attr(3, 'name', 'named'))
    E.append(e_ref_attr(1, 'on_delete', 'cascade'))
    E.append(e_ref_attr(3, 'on_update', None))
    E.append(e_add_column(0, 'extra', 'int'))
    E.append(e_add_column(2, 'y', 'varchar'))
    E.append(e_add_index(0, 2, True))
    E.append(e_add_index(1, 1, False))
    E.append(e_del_index(0, 0))
    E.append(e_del_index(0, 2))
    E.append(e_index_attr(0, 1, 'name', 'renamed ix'))
    E.append(e_index_attr(0, 0, 'pk', True))
    E.append(e_index_attr(0, 1, 'type', 'btree'))
    E.append(e_add_item(0, 'zzz'))
    E.append(e_item_name(0, 1, 'why not'))
    E.append(e_group_attr(0, 'name', 'g2'))
    E.append(e_group_attr(0, 'color', '#fff'))
    E.append(e_project_name('p2'))
    return E


EDITS = _edits()
EDIT_NAMES = [e[0] for e in EDITS]


# ------------------------------------------------------------------------------------------------

def renderings(db):
    """label -> text (or a marker for an exception) for the database and every element in it"""
    out = {}

    def r(label, obj, attr):
        try:
            out[label] = getattr(obj, attr)
        except Exception as e:
            out[label] = f'<raised {type(e).__name__}: {str(e)[:80]}>'
    r('db.sql', db, 'sql')
    r('db.dbml', db, 'dbml')
    for i, t in enumerate(db.tables):
        r(f'tables[{i}].sql', t, 'sql')
        r(f'tables[{i}].dbml', t, 'dbml')
        r(f'tables[{i}].note.sql', t.note, 'sql')
        r(f'tables[{i}].note.dbml', t.note, 'dbml')
        for j, c in enumerate(t.columns):
            r(f'tables[{i}].columns[{j}].sql', c, 'sql')
            r(f'tables[{i}].columns[{j}].dbml', c, 'dbml')
            r(f'tables[{i}].columns[{j}].note.sql', c.note, 'sql')
        for j, ix in enumerate(t.indexes):
            r(f'tables[{i}].indexes[{j}].sql', ix, 'sql')
            r(f'tables[{i}].indexes[{j}].dbml', ix, 'dbml')
    for i, e in enumerate(db.enums):
        r(f'enums[{i}].sql', e, 'sql')
        r(f'enums[{i}].dbml', e, 'dbml')
        for j, it in enumerate(e.items):
            r(f'enums[{i}].items[{j}].sql', it, 'sql')
            r(f'enums[{i}].items[{j}].dbml', it, 'dbml')
    for i, x in enumerate(db.refs):
        r(f'refs[{i}].sql', x, 'sql')
        r(f'refs[{i}].dbml', x, 'dbml')
    for i, g in enumerate(db.table_groups):
        r(f'table_groups[{i}].dbml', g, 'dbml')
    for i, n in enumerate(db.sticky_notes):
        r(f'sticky_notes[{i}].dbml', n, 'dbml')
    if db.project is not None:
        r('project.dbml', db.project, 'dbml')
    return out


_START_TEXT = None
_FRESH = {}
_PARSED = None


def start_db(route):
    m = c10_model()
    if route == 'api':
        return builder.build(m)
    from pydbml import PyDBML
    import copy
    global _START_TEXT, _PARSED
    if _START_TEXT is None:
        _START_TEXT = writer.write(m)
    if _PARSED is None or _PARSED[1] >= 400:
        # a fresh parse every 400 histories, deep copies of the never-edited, never-rendered original in between
        _PARSED = [PyDBML(_START_TEXT), 0]
    _PARSED[1] += 1
    return copy.deepcopy(_PARSED[0])


def run_history(route, hist, mode):
    """-> (diffs list, info).  mode: 'render' = every rendering evaluated after each edit; 'dbonly' = db.sql and db.dbml
    after each edit; 'none' = nothing rendered until the end."""
    db = start_db(route)
    m = c10_model()
    if mode != 'none':
        renderings(db) if mode == 'render' else (db.sql, db.dbml)
    for k in hist:
        name, live, model = EDITS[k]
        live(db)
        model(m)
        if mode == 'render':
            renderings(db)
        elif mode == 'dbonly':
            try:
                db.sql
                db.dbml
            except Exception:
                pass
    got = renderings(db)
    from .. import canon
    key = canon.key(m)
    fresh = _FRESH.get(key)
    if fresh is None:
        try:
            fresh = renderings(builder.build(m))
        except Exception as e:
            # the final content cannot be built as a database at all (two tables ended up with the same full name, ...):
            # there is nothing to compare with; the property speaks about "a database freshly built with the final content"
            fresh = 'unbuildable:' + type(e).__name__
        if len(_FRESH) > 20000:
            _FRESH.clear()
        _FRESH[key] = fresh
    if isinstance(fresh, str):
        return fresh
    diffs = []
    for label in sorted(set(got) | set(fresh)):
        if got.get(label) != fresh.get(label):
            diffs.append([label, got.get(label, '<absent>'), fresh.get(label, '<absent>')])
    return diffs


def check_history(p, route, hist, mode):
    case = {'route': route, 'history': [EDIT_NAMES[k] for k in hist], 'edits': list(hist), 'mode': mode}
    try:
        diffs = run_history(route, hist, mode)
    except Exception as e:
        p['outcomes']['harness-or-edit-raised:' + type(e).__name__] += 1
        p['violations'].append(violation(PID, 'edit-raised', case, observed=exc_info(e), detail=f'{type(e).__name__}: {e}'))
        return
    p['evaluations'] += 1
    p['traces'] += 1
    if isinstance(diffs, str):
        p['outcomes'][f'{route}/{mode}/{diffs}(skipped)'] += 1
        return
    p['nontrivial'].add(digest(case))
    p['outcomes'][f'{route}/{mode}/' + ('current' if not diffs else 'stale')] += 1
    if diffs:
        lab, g, f = diffs[0]
        p['violations'].append(violation(PID, 'stale-rendering', case, observed=[[d[0], str(d[1])[:300], str(d[2])[:300]] for d in diffs[:5]],
                                         detail=f'after {case["history"]}: {lab} is {str(g)[:160]!r}, a fresh build gives {str(f)[:160]!r}'))


# edits after which a rendering is most likely to have been cached (targets of caches: pk layout, names, join tables, order)
def sensitive_first(tier):
    if tier != 'quick':
        return list(range(len(EDITS)))
    keep = []
    for k, n in enumerate(EDIT_NAMES):
        if any(x in n for x in ('.pk=', '.name=', '.schema=', '.type=', 'inline', 'add_column', 'delete_index')):
            keep.append(k)
    return keep


def units(tier, seed):
    us = []
    n = len(EDITS)
    for route in ('api', 'parsed'):
        for first in range(n):
            us.append(('d2', route, first, tier))
        if tier != 'quick' or route == 'api':
            for first in sensitive_first(tier):
                us.append(('d3', route, first, tier))
    return us


def work(unit):
    kind, route, first, tier = unit
    p = new_part()
    n = len(EDITS)
    if kind == 'd2':
        for mode in ('render', 'none'):
            check_history(p, route, (first,), mode)
            p['states'] += 1
            p['transitions'] += 1
            for second in range(n):
                check_history(p, route, (first, second), mode)
                p['states'] += 1
                p['transitions'] += 1
        p['samples'].append({'route': route, 'history': [EDIT_NAMES[first], EDIT_NAMES[n - 1]], 'mode': 'render'})
    else:
        seconds = range(n) if tier != 'quick' else sensitive_first(tier)
        for second in seconds:
            for third in seconds:
                check_history(p, route, (first, second, third), 'dbonly')
                p['states'] += 1
                p['transitions'] += 1
        p['samples'].append({'route': route, 'history': [EDIT_NAMES[first], EDIT_NAMES[0], EDIT_NAMES[1]], 'mode': 'dbonly'})
    return p


def replay(case):
    p = new_part()
    check_history(p, case['route'], tuple(case['edits']), case['mode'])
    return p['violations']
