"""C11 — parsing is deterministic, history-independent and re-entrant.

Four exhaustive explorations over one alphabet of calls (13 documents — every element kind, a full mix, one with properties,
one per failure point: syntax error first / last, semantic error in the second phase, duplicate table, column-less table, the
empty document — x 3 option sets):

  hist    every call history up to the bound, from the warm and (via heap.cold_reset) the cold shared state: after every call
          the outcome (canonical content + renderings, or exception class + message) equals the outcome of the same call in
          isolation; the shared grammar state (heap.snapshot) is recorded as a state graph; after dropping the results the
          census of live pydbml objects is back at the baseline (successful and failed parses alike)
  alias   every ordered pair of successful calls: no mutable object is reachable from both results; mutating everything
          reachable from the first (project items, properties, notes, add column / table / item, rename) leaves the second
          and a third, later parse unchanged
  sched   pairs of calls in two threads under the controlled scheduler (verif/sched.py): every schedule with at most one
          preemption at pydbml line granularity; each thread's outcome equals its isolated outcome; census back at baseline
  fresh   every call once in a fresh interpreter process: "in isolation" is not merely "first in this process"
"""
from __future__ import annotations

import itertools
import json
import os
import subprocess
import sys

from .. import asm as A
from .. import canon, heap, sched, writer
from ..runner import new_part, violation, digest, exc_info, REPO, VERIF_DIR
from . import c10, c16

PID = 'C11'
LEVEL = 'model_checking'
RULE = ('call histories over 13 documents x 3 option sets from warm and cold shared state (states = distinct shared-grammar snapshots reached, '
        'transitions = calls), ordered result pairs with a reachability + mutation oracle, two-thread schedules with <= 1 preemption at every pydbml '
        'line event, fresh-process cross-check; distinct_nontrivial = distinct histories / pairs / schedules executed')
ASSUMPTIONS = ['scheduling points are line events in frames of <repo>/pydbml (pyparsing frames run untraced between them); a race entirely inside one '
               'pyparsing step on state that heap.snapshot does not enumerate would be invisible',
               'display-name caches of pyparsing elements are excluded from the snapshot (heap.EXCLUDED)',
               'custom renderer classes are created per call; their class objects are legitimately shared by reference']


def bounds(tier):
    return {'two_preemption_pairs_call_granularity': 0 if tier == 'quick' else len(SCHED2_PAIRS), 'three_thread_triples': 0 if tier == 'quick' else len(SCHED3_TRIPLES),
            'cold_start_shared_write_pairs': len(SCHEDW_PAIRS),
            'cold_start_shared_write_point_stride': 8 if tier == 'quick' else 1,
            'history_length_full_alphabet': 2, 'history_length_reduced_alphabet': 3 if tier == 'quick' else 4, 'reduced_alphabet': len(reduced(tier)), 'preemptions': 1,
            'threads': 2, 'schedule_pairs': len(sched_pairs(tier)), 'calls': len(CALLS)}


# ------------------------------------------------------------------------------------------------
# alphabet

def documents():
    full = c10.start_model()
    props = A.model(tables=[A.table('t', [A.col('id', properties=[['ck', 'cv']]), A.col('v', 'varchar')], properties=[['tk', 'tv']])],
                    project=A.project('p', [['k', 'v']]), allow_properties=True)
    d = {
        'empty': '',
        'table': 'Table t {\n  id int [pk]\n  v varchar\n}\n',
        'enum': 'Enum e {\n  a\n  b [note: \'bn\']\n}\nTable t {\n  k e\n}\n',
        'refs': 'Table a {\n  id int\n}\nTable b {\n  id int\n  a_id int [ref: > a.id]\n}\nRef r: b.id < a.id [delete: cascade]\nRef: a.id <> b.id\n',
        'group': 'Table a {\n  id int\n}\nTableGroup g {\n  a\n  Note: \'gn\'\n}\n',
        'project': 'Project p {\n  k: \'v\'\n  Note: \'pn\'\n}\nNote n {\n  \'sticky\'\n}\n',
        'full': writer.write(full),
        'props': writer.write(props),
        'syntax-first': 'Table t {\n  id int [\n}\nTable u {\n  id int\n}\n',
        'syntax-last': 'Table t {\n  id int\n}\nNote n {\n  \'x\'\n}\nEnum e {\n  a\n}\nTable u {\n  id\n}\n',
        'semantic': 'Table t {\n  id int\n}\nNote n {\n  \'x\'\n}\nProject p {\n  k: \'v\'\n}\nRef: t.id > nosuch.id\n',
        'duplicate': 'Enum e {\n  a\n}\nTable t {\n  id int\n}\nTable t {\n  id int\n}\n',
        'nocolumns': 'Table a {\n  id int\n}\nTable t {\n  Note: \'only\'\n}\n',
    }
    return d


DOCS = documents()
OPTS = ['default', 'props', 'custom']
# two more ways of calling, on a few documents: a source-less PyDBML(<options>) instance whose .parse(text) is then used (the options of
# the instance must not leak anywhere), and PyDBML.parse_file on a file holding the document (it takes no options)
EXTRA_CALLS = [('table', 'instance'), ('props', 'instance'), ('table', 'file'), ('props', 'file'), ('semantic', 'file')]
CALLS = [(d, o) for d in DOCS for o in OPTS] + EXTRA_CALLS
REDUCED = [(d, o) for d in ('table', 'full', 'props', 'syntax-last', 'semantic', 'duplicate', 'nocolumns', 'empty') for o in ('default', 'props')]
REDUCED_QUICK = [(d, o) for d in ('full', 'props', 'syntax-last', 'semantic', 'nocolumns') for o in ('default', 'props')]


def reduced(tier):
    return REDUCED_QUICK if tier == 'quick' else REDUCED


def parse_file_of(doc):
    """write the document to a temporary file, parse it with PyDBML.parse_file, remove the file"""
    import tempfile
    from pydbml import PyDBML
    f = tempfile.NamedTemporaryFile('w', suffix='.dbml', prefix='verif_c11_', delete=False, encoding='utf8', newline='')
    try:
        f.write(DOCS[doc])
        f.close()
        return PyDBML.parse_file(f.name)
    finally:
        try:
            os.unlink(f.name)
        except OSError:
            pass


def kwargs_for(opt):
    if opt == 'props':
        return {'allow_properties': True}
    if opt == 'custom':
        return {'sql_renderer': c16.make_renderer('SQLX', 'all'), 'dbml_renderer': c16.make_renderer('DBMLX', 'table')}
    return {}


def do_call(call):
    """-> (outcome, database or None).  outcome is JSON-able and comparable."""
    from pydbml import PyDBML
    doc, opt = call
    try:
        if opt == 'instance':
            db = PyDBML(allow_properties=True, sql_renderer=c16.make_renderer('SQLX', 'all')).parse(DOCS[doc])
        elif opt == 'file':
            db = parse_file_of(doc)
        else:
            db = PyDBML(DOCS[doc], **kwargs_for(opt))
    except BaseException as e:
        import pyparsing
        if isinstance(e, pyparsing.ParseBaseException):
            # the *text* of a pyparsing error message is assembled from lazily cached display names of grammar elements (excluded from
            # the shared-state snapshot for that reason) and may legitimately vary with what was parsed before; class and location
            # are what identifies the outcome
            return ['raised', type(e).__name__, f'loc={e.loc} line={e.lineno} col={e.col}'], None
        return ['raised', type(e).__name__, str(e)[:300]], None
    return describe(db), db


def describe(db):
    out = ['db', canon.key(canon.canon(db)), db.sql_renderer.__name__, db.dbml_renderer.__name__]
    for which in ('sql', 'dbml'):
        try:
            out.append(getattr(db, which))
        except Exception as e:
            out.append(f'<raises {type(e).__name__}>')
    return out


ISOLATED = None
BASELINE = None


def init_worker():
    """per worker process: cold copy before the first parse, isolated outcomes from the cold state, census baseline"""
    global ISOLATED, BASELINE, INTERP0
    import pydbml  # noqa
    INTERP0 = interpreter_state()       # before the first parse of the process
    heap.cold_copy()
    ISOLATED = {}
    for call in CALLS:
        heap.cold_reset()
        out, db = do_call(call)
        ISOLATED[call] = out
        del db
    # isolated must not depend on the cold / warm state either: recompute warm and compare (reported by the hist units)
    BASELINE = heap.census()


def ensure_init():
    if ISOLATED is None:
        init_worker()


# A worker process executes several units one after the other.  If an earlier unit left process-global state behind that changes
# what later parses return, every later comparison in this worker would fail for a reason its own case does not contain.  So the
# units executed so far are logged, a probe runs before each unit, and pollution is reported once, as a case that holds the whole
# unit sequence (replayable on its own); the polluted worker then stops comparing.
WORKER_LOG = []
POLLUTED = False
PROBE_CALLS = [('full', 'default'), ('props', 'props'), ('semantic', 'default'), ('enum', 'custom')]


def probe_pollution(p):
    global POLLUTED
    if POLLUTED:
        return True
    for call in PROBE_CALLS:
        heap.cold_reset()
        out, db = do_call(call)
        del db
        if out != ISOLATED[call]:
            POLLUTED = True
            i = next((k for k, (a, b) in enumerate(zip(out, ISOLATED[call])) if a != b), 0)
            p['violations'].append(violation(PID, 'later-parses-changed-by-earlier-calls', {'mode': 'pollution', 'units': [list(u) for u in WORKER_LOG], 'probe': list(call)},
                                             expected=str(ISOLATED[call][i])[:400], observed=str(out[i])[:400],
                                             detail=f'after the units {[list(u)[:2] for u in WORKER_LOG][-4:]} (… {len(WORKER_LOG)} in all) the call {call} no longer gives the outcome it gave '
                                                    f'at the start of the process (field {i})'))
            return True
    return False


def census_diff():
    now = heap.census()
    return {k: (BASELINE.get(k, 0), now.get(k, 0)) for k in set(BASELINE) | set(now) if BASELINE.get(k, 0) != now.get(k, 0)}


def actions_fingerprint():
    return digest([len(e.parseAction) for e in heap.shared_elements()])


# ------------------------------------------------------------------------------------------------
# hist

def interpreter_state():
    """process-wide settings a parse has no business changing (they decide the outcome of later parses: recursion depth, number
    conversion, thread switching, pyparsing's global switches)"""
    import pyparsing as pp
    return {'recursionlimit': sys.getrecursionlimit(), 'switchinterval': sys.getswitchinterval(),
            'int_max_str_digits': sys.get_int_max_str_digits() if hasattr(sys, 'get_int_max_str_digits') else None,
            'pp.DEFAULT_WHITE_CHARS': pp.ParserElement.DEFAULT_WHITE_CHARS, 'pp.packrat': bool(getattr(pp.ParserElement, '_packratEnabled', False)),
            'pp.left_recursion': bool(getattr(pp.ParserElement, '_left_recursion_enabled', False)),
            'pp.verbose_stacktrace': bool(getattr(pp.ParserElement, 'verbose_stacktrace', False))}


INTERP0 = None


def check_interpreter_state(p, case, what):
    global INTERP0
    now = interpreter_state()
    if INTERP0 is None:
        INTERP0 = now
        return True
    if now != INTERP0:
        diff = {k: (INTERP0[k], now[k]) for k in now if now[k] != INTERP0[k]}
        p['violations'].append(violation(PID, 'interpreter-state-changed-by-parse', case, expected={k: v[0] for k, v in diff.items()}, observed={k: v[1] for k, v in diff.items()},
                                         detail=f'{what}: process-wide settings changed: {diff}'))
        # put it back so that one leak is reported once, not by every later history of this worker
        if 'recursionlimit' in diff:
            sys.setrecursionlimit(INTERP0['recursionlimit'])
        if 'switchinterval' in diff:
            sys.setswitchinterval(INTERP0['switchinterval'])
        if 'int_max_str_digits' in diff and INTERP0['int_max_str_digits'] is not None:
            sys.set_int_max_str_digits(INTERP0['int_max_str_digits'])
        return False
    return True


def run_history(p, start, hist, graph, full_snapshots):
    case = {'mode': 'hist', 'start': start, 'history': [list(c) for c in hist]}
    if start == 'cold':
        heap.cold_reset()
    check_interpreter_state(p, case, 'before the history')
    state = heap.snapshot() if full_snapshots else None
    fp0 = actions_fingerprint()
    kept = []
    for n, call in enumerate(hist):
        out, db = do_call(call)
        kept.append(db)             # earlier results stay alive while later calls run
        p['transitions'] += 1
        if out != ISOLATED[call]:
            what = 'outcome' if out[0] == ISOLATED[call][0] else 'outcome kind'
            i = next((k for k, (a, b) in enumerate(zip(out, ISOLATED[call])) if a != b), 0)
            p['violations'].append(violation(PID, 'outcome-depends-on-history', dict(case, step=n, call=list(call)), expected=str(ISOLATED[call][i])[:600], observed=str(out[i])[:600],
                                             detail=f'{call} after {[list(c) for c in hist[:n]]} from the {start} state: {what} differs from the isolated call (field {i})'))
            kept.clear()
            return
        if not check_interpreter_state(p, dict(case, step=n, call=list(call)), f'after {call} (step {n} of {[list(c) for c in hist]})'):
            kept.clear()
            return
        if full_snapshots:
            s = heap.snapshot()
            graph.setdefault((state, call[1]), set()).add(s)
            graph.setdefault(('doc-dependence', state, call[1]), {}).setdefault(s, set()).add(call[0])
            state = s
    # earlier results must still describe the same content after the later calls
    for call, db in zip(hist, kept):
        if db is not None and describe(db) != ISOLATED[call]:
            p['violations'].append(violation(PID, 'earlier-result-changed-by-later-parse', dict(case, call=list(call)),
                                             detail=f'the database returned by {call} changed while later calls of {[list(c) for c in hist]} ran'))
            break
    kept.clear()
    db = None
    fp1 = actions_fingerprint()
    if start == 'warm' and fp1 != fp0 and len(hist) and all(c[1] == hist[0][1] for c in hist) is False:
        pass
    p['states'] += 1
    p['traces'] += 1
    p['evaluations'] += 1
    p['nontrivial'].add(digest(case))
    p['outcomes'][f'hist/{start}/len{len(hist)}'] += 1


def check_census(p, case, what):
    d = census_diff()
    if d:
        p['violations'].append(violation(PID, 'objects-retained-after-parse', case, observed={k: list(v) for k, v in d.items()},
                                         detail=f'{what}: live pydbml objects differ from the baseline after the results were dropped: {d}'))
        return False
    return True


# ------------------------------------------------------------------------------------------------
# alias

MUTABLE_TYPES = (dict, list, set, bytearray)


def reachable(db):
    """ids of every mutable object reachable from a database through instance attributes, lists, dicts and tuples"""
    seen = {}
    stack = [db]
    while stack:
        o = stack.pop()
        if id(o) in seen:
            continue
        mod = getattr(type(o), '__module__', '') or ''
        if isinstance(o, MUTABLE_TYPES) or mod.startswith('pydbml'):
            seen[id(o)] = o
        else:
            if not isinstance(o, tuple):
                continue
        if isinstance(o, dict):
            stack.extend(o.values())
            stack.extend(o.keys())
        elif isinstance(o, (list, tuple, set)):
            stack.extend(o)
        elif hasattr(o, '__dict__') and not isinstance(o, type):
            stack.extend(vars(o).values())
    return seen


def mutate_everything(db):
    from pydbml.classes import Column, Table, Note
    if db.project is not None:
        db.project.items['zz'] = 'mutated'
        db.project.name = 'mutated'
        db.project.note.text = 'mutated'
    for t in list(db.tables):
        t.properties['zz'] = 'mutated'
        t.note.text = 'mutated'
        t.name = t.name + '_m'
        for c in t.columns:
            c.properties['zz'] = 'mutated'
            c.note.text = 'mutated'
            c.name = c.name + '_m'
            c.default = 'mutated'
        t.add_column(Column('added', 'int'))
        for i in t.indexes:
            i.subjects.append(t.columns[-1])
            i.note = Note('mutated')
    nt = Table('added')
    nt.add_column(Column('id', 'int'))
    db.add(nt)
    for e in db.enums:
        e.add_item('added')
        e.items[0].name = 'mutated'
    for g in db.table_groups:
        g.items.append(nt)
    for r in db.refs:
        r.col1.append(nt.columns[0])
    for n in db.sticky_notes:
        n.text = 'mutated'
    db.tables.reverse()
    db.allow_properties = not db.allow_properties


def check_alias(p, a, b):
    case = {'mode': 'alias', 'first': list(a), 'second': list(b)}
    o1, d1 = do_call(a)
    o2, d2 = do_call(b)
    p['transitions'] += 2
    if d1 is None or d2 is None:
        p['outcomes']['alias/one-failed(skipped)'] += 1
        return
    r1, r2 = reachable(d1), reachable(d2)
    common = [r1[k] for k in r1 if k in r2 and not isinstance(r1[k], type)]
    if common:
        p['violations'].append(violation(PID, 'results-share-mutable-state', case, observed=[type(x).__name__ + ':' + repr(x)[:80] for x in common[:5]],
                                         detail=f'{len(common)} mutable object(s) are reachable from both results, e.g. {type(common[0]).__name__} {repr(common[0])[:80]}'))
        return
    try:
        mutate_everything(d1)
    except Exception as e:
        p['outcomes'][f'alias/mutation-raised:{type(e).__name__}'] += 1
    if describe(d2) != o2:
        p['violations'].append(violation(PID, 'mutating-one-result-changes-another', case, detail=f'after editing the result of {a}, the result of {b} changed'))
        return
    o3, d3 = do_call(b)
    if o3 != ISOLATED[b]:
        p['violations'].append(violation(PID, 'mutating-a-result-changes-later-parses', case, detail=f'after editing the result of {a}, parsing {b} again gives a different outcome'))
        return
    p['evaluations'] += 1
    p['states'] += 1
    p['traces'] += 1
    p['nontrivial'].add(digest(case))
    p['outcomes']['alias/independent'] += 1


# ------------------------------------------------------------------------------------------------
# sched

def sched_pairs(tier):
    base = [('table', 'default'), ('full', 'default'), ('props', 'props'), ('syntax-last', 'default'), ('semantic', 'default'), ('refs', 'custom')]
    pairs = [(('table', 'default'), ('table', 'default')), (('table', 'default'), ('props', 'props')), (('refs', 'custom'), ('semantic', 'default')),
             (('enum', 'default'), ('syntax-last', 'default'))]
    if tier != 'quick':
        pairs = [(a, b) for a, b in itertools.combinations_with_replacement(base, 2)]
    return pairs


SCHED2_PAIRS = [(('table', 'default'), ('props', 'props')), (('props', 'props'), ('semantic', 'default'))]
SCHEDW_PAIRS = [(('table', 'default'), ('props', 'props')), (('full', 'default'), ('semantic', 'default')), (('full', 'props'), ('props', 'props'))]
SCHED3_TRIPLES = [(('table', 'default'), ('props', 'props'), ('semantic', 'default')), (('enum', 'default'), ('enum', 'default'), ('syntax-last', 'props'))]


def body_for(call):
    def f():
        out, db = do_call(call)
        return out
    return f


_SHARED_IDS = None


def shared_ids():
    global _SHARED_IDS
    if _SHARED_IDS is None:
        _SHARED_IDS = {id(e) for e in heap.shared_elements()}
    return _SHARED_IDS


def run_schedule(p, pair, first, switches, cold, case, granularity='line'):
    if cold:
        heap.cold_reset()
    bodies = [body_for(c) for c in pair]
    probe = None
    if granularity == 'writes':
        import pyparsing
        probe = (pyparsing.ParserElement, shared_ids())
    try:
        results, counts, log = sched.run(bodies, first=first, switches=switches, prefix=os.path.join(REPO, 'pydbml') + os.sep, granularity=granularity,
                                         write_probe=probe)
    except RuntimeError as e:
        p['violations'].append(violation(PID, 'schedule-hangs', dict(case, first=first, switches=[list(s) for s in switches]), detail=str(e)))
        return None
    p['transitions'] += 1
    p['evaluations'] += 1
    for i, (kind, val) in enumerate(results):
        out = val if kind == 'ok' else ['harness-raised', type(val).__name__, str(val)[:200]]
        if out != ISOLATED[pair[i]]:
            j = next((k for k, (a, b) in enumerate(zip(out, ISOLATED[pair[i]])) if a != b), 0)
            p['violations'].append(violation(PID, 'outcome-depends-on-schedule', dict(case, first=first, switches=[list(s) for s in switches], thread=i),
                                             expected=str(ISOLATED[pair[i]][j])[:600], observed=str(out[j])[:600],
                                             detail=f'thread {i} ({pair[i]}) under schedule first={first} switches={list(switches)} (realised {log}): outcome differs from the isolated call (field {j})'))
            return counts
    return counts


def explore_pair(p, pair, cold, tier, chunk=0, nchunks=1):
    case = {'mode': 'sched', 'pair': [list(pair[0]), list(pair[1])], 'cold': cold}
    # zero preemptions: each order
    counts = None
    for first in (0, 1):
        c = run_schedule(p, pair, first, (), cold, case)
        if c is None:
            return
        counts = counts or c
        p['states'] += 1
    # determinism of the harness itself: the same schedule twice gives the same point counts
    c2 = run_schedule(p, pair, 0, (), cold, case)
    if c2 != counts:
        p['caps'].append(f'replay diverged for {pair}: {counts} vs {c2}')
        p['violations'].append(violation(PID, 'harness-replay-diverges', case, observed=[counts, c2], detail='the same schedule gave different scheduling-point counts'))
        return
    # one preemption: thread t is preempted at its k-th point, the other runs to completion, t resumes
    n0, n1 = counts
    allpoints = [(t, k) for t, n in ((0, n0), (1, n1)) for k in range(n)]
    for idx, (t, k) in enumerate(allpoints):
        if idx % nchunks != chunk:
            continue
        run_schedule(p, pair, t, ((t, k),), cold, case)
        p['states'] += 1
        p['traces'] += 1
        p['nontrivial'].add(digest([case, t, k]))
    p['outcomes'][f"sched/{'cold' if cold else 'warm'}/points{(n0 + n1) // 100 * 100}+"] += 1
    p['extra']['scheduling_points_of_explored_pairs'] = (n0 + n1) if chunk == 0 else 0
    check_census(p, case, f'after the schedules of {pair}')


def explore_two_preemptions(p, pair, chunk, nchunks):
    """2 threads, scheduling points at every entry into a pydbml function: all schedules with two preemptions
    (thread t preempted at its k1-th point, the other preempted at its k2-th point, t runs to completion, the other finishes)"""
    case = {'mode': 'sched2', 'pair': [list(pair[0]), list(pair[1])], 'cold': False, 'granularity': 'call'}
    c = run_schedule(p, pair, 0, (), False, case, 'call')
    if c is None:
        return
    n0, n1 = c
    idx = 0
    for t in (0, 1):
        nt, no = (n0, n1) if t == 0 else (n1, n0)
        for k1 in range(nt):
            for k2 in range(no):
                idx += 1
                if idx % nchunks != chunk:
                    continue
                run_schedule(p, pair, t, ((t, k1), (1 - t, k2)), False, case, 'call')
                p['states'] += 1
                p['traces'] += 1
                p['nontrivial'].add(digest([case, t, k1, k2]))
    p['outcomes'][f'sched2/call-points{n0 + n1}'] += 1
    p['extra']['two_preemption_call_points'] = (n0 + n1) if chunk == 0 else 0
    check_census(p, case, f'after the two-preemption schedules of {pair}')


def explore_cold_writes(p, pair, chunk, nchunks, stride=1):
    """cold start, scheduling points = every attribute write to a shared grammar element (pyparsing's lazy set-up, run by whichever
    thread parses first): the first thread is preempted at each of its writes, the other does the remaining set-up and its whole
    parse, the first resumes"""
    case = {'mode': 'schedw', 'pair': [list(pair[0]), list(pair[1])], 'cold': True, 'granularity': 'writes'}
    total = 0
    for t in (0, 1):
        c = run_schedule(p, pair, t, (), True, case, 'writes')
        if c is None:
            return
        n = c[t]
        total += n
        for k in range(0, n, stride):
            if (k // stride) % nchunks != chunk:
                continue
            run_schedule(p, pair, t, ((t, k),), True, case, 'writes')
            p['states'] += 1
            p['traces'] += 1
            p['nontrivial'].add(digest([case, t, k]))
    p['outcomes']['schedw/explored'] += 1
    p['extra']['cold_start_shared_write_points'] = total if chunk == 0 else 0
    check_census(p, case, f'after the cold-start write-point schedules of {pair}')


def explore_three_threads(p, triple, chunk, nchunks):
    """3 threads, one preemption at line granularity: thread t is preempted at its k-th point, the other two run to completion in
    order, t resumes; for every t and k, plus the three unpreempted orders"""
    case = {'mode': 'sched3', 'pair': [list(c) for c in triple], 'cold': False}
    counts = None
    for first in (0, 1, 2):
        c = run_schedule(p, triple, first, (), False, case)
        if c is None:
            return
        counts = counts or c
    idx = 0
    for t in (0, 1, 2):
        for k in range(counts[t]):
            idx += 1
            if idx % nchunks != chunk:
                continue
            run_schedule(p, triple, t, ((t, k),), False, case)
            p['states'] += 1
            p['traces'] += 1
            p['nontrivial'].add(digest([case, t, k]))
    p['outcomes']['sched3/explored'] += 1
    check_census(p, case, f'after the three-thread schedules of {triple}')


def free_running(p, rounds=2, nthreads=6):
    """Supplementary, not deciding: OS threads running the whole call alphabet concurrently without any tracing and with a very
    short switch interval — the cooperative scheduler's hand-offs are happens-before edges, so this pass is the one place where
    the interpreter preempts wherever it likes.  Every outcome must still equal the isolated outcome."""
    import sys as _sys
    import threading
    old = _sys.getswitchinterval()
    _sys.setswitchinterval(1e-6)
    bad = []
    lock = threading.Lock()

    def body(offset):
        for r in range(rounds):
            for k in range(len(CALLS)):
                call = CALLS[(k * 7 + offset * 5 + r) % len(CALLS)]
                out, db = do_call(call)
                if out != ISOLATED[call]:
                    with lock:
                        bad.append(call)
    try:
        ts = [threading.Thread(target=body, args=(i,)) for i in range(nthreads)]
        for t in ts:
            t.start()
        for t in ts:
            t.join()
    finally:
        _sys.setswitchinterval(old)
    p['evaluations'] += rounds * nthreads * len(CALLS)
    p['extra']['free_running_calls'] = rounds * nthreads * len(CALLS)
    p['outcomes']['freerun/' + ('all-equal' if not bad else 'differs')] += 1
    if bad:
        p['violations'].append(violation(PID, 'outcome-differs-under-free-running-threads', {'mode': 'freerun', 'calls': [list(c) for c in bad[:5]]},
                                         detail=f'{len(bad)} calls gave a different outcome while {nthreads} threads parsed concurrently, e.g. {bad[0]}'))
    check_census(p, {'mode': 'freerun'}, 'after the free-running pass')


# ------------------------------------------------------------------------------------------------
# fresh processes

FRESH_CODE = r'''
import sys, json
sys.dont_write_bytecode = True
sys.path.insert(0, %r); sys.path.insert(0, %r)
from verif.runner import bind_repo
bind_repo()
from verif.props import c11
call = tuple(json.loads(sys.argv[1]))
out, db = c11.do_call(call)
print(json.dumps(out))
'''


def check_fresh(p, calls):
    env = dict(os.environ, PYTHONHASHSEED='0', VERIF_REPO=REPO, PYTHONDONTWRITEBYTECODE='1')
    procs = []
    for call in calls:
        procs.append((call, subprocess.Popen([sys.executable, '-c', FRESH_CODE % (REPO, VERIF_DIR), json.dumps(list(call))],
                                             stdout=subprocess.PIPE, stderr=subprocess.PIPE, text=True, env=env, cwd=VERIF_DIR)))
    for call, pr in procs:
        so, se = pr.communicate(timeout=120)
        p['evaluations'] += 1
        p['transitions'] += 1
        case = {'mode': 'fresh', 'call': list(call)}
        p['nontrivial'].add(digest(case))
        try:
            out = json.loads(so.strip().splitlines()[-1])
        except Exception:
            p['violations'].append(violation(PID, 'fresh-process-failed', case, observed=(so + se)[-500:], detail=f'fresh interpreter for {call} produced no outcome'))
            continue
        if out != json.loads(json.dumps(ISOLATED[call])):
            p['violations'].append(violation(PID, 'outcome-differs-in-fresh-process', case, detail=f'{call}: a fresh interpreter gives a different outcome than the first call in the worker'))
        else:
            p['outcomes']['fresh/same'] += 1
            p['states'] += 1


# ------------------------------------------------------------------------------------------------

def units(tier, seed):
    us = []
    for k in range(len(CALLS)):
        us.append(('hist2', k, tier))
    for k in range(len(reduced(tier))):
        us.append(('hist3', k, tier))
    for k in range(len(CALLS)):
        us.append(('alias', k, tier))
    NCH = 8
    for k in range(len(sched_pairs(tier))):
        for cold in ((False, True) if (tier != 'quick' or k < 1) else (False,)):
            for ch in range(NCH):
                us.append(('sched', (k, cold, ch, NCH), tier))
    for k in range(0, len(CALLS), 13):
        us.append(('fresh', k, tier))
    us.append(('freerun', 0, tier))
    if tier == 'quick':
        # every 8th write point of the three pairs (on a tree whose grammar is complete at import time there are none)
        for pi in (0, 1, 2):
            for ch in range(16):
                us.append(('schedw', (pi, ch, 16, 8), tier))
    if tier != 'quick':
        for pi in range(len(SCHED2_PAIRS)):
            for ch in range(16):
                us.append(('sched2', (pi, ch, 16), tier))
        for ti in range(len(SCHED3_TRIPLES)):
            for ch in range(8):
                us.append(('sched3', (ti, ch, 8), tier))
        for pi in range(len(SCHEDW_PAIRS)):
            for ch in range(32):
                us.append(('schedw', (pi, ch, 32, 1), tier))
    return us


def work(unit):
    mode, k, tier = unit
    ensure_init()
    p = new_part()
    graph = {}
    if probe_pollution(p):
        p['outcomes']['unit-skipped-in-polluted-worker'] += 1
        return p
    WORKER_LOG.append(unit)
    if mode == 'hist2':
        first = CALLS[k]
        for start in ('warm', 'cold'):
            run_history(p, start, (first,), graph, True)
            for second in CALLS:
                run_history(p, start, (first, second), graph, start == 'cold' and second[0] in ('empty', 'full', 'semantic'))
        check_census(p, {'mode': 'hist', 'first': list(first)}, f'after all histories starting with {first}')
        p['samples'].append({'mode': 'hist', 'history': [list(first), list(CALLS[-1])], 'start': 'cold'})
    elif mode == 'hist3':
        R = reduced(tier)
        first = R[k]
        n = 3 if tier == 'quick' else 4
        for start in ('warm', 'cold'):
            for rest in itertools.product(R, repeat=n - 1):
                run_history(p, start, (first,) + rest, graph, False)
        check_census(p, {'mode': 'hist', 'first': list(first)}, f'after all length-{n} histories starting with {first}')
        p['samples'].append({'mode': 'hist', 'history': [list(first)] + [list(R[0])] * (n - 1), 'start': 'warm'})
    elif mode == 'alias':
        a = CALLS[k]
        for b in CALLS:
            check_alias(p, a, b)
        check_census(p, {'mode': 'alias', 'first': list(a)}, f'after all pairs starting with {a}')
        p['samples'].append({'mode': 'alias', 'first': list(a), 'second': list(CALLS[3])})
    elif mode == 'sched':
        pi, cold, ch, nch = k
        pair = sched_pairs(tier)[pi]
        explore_pair(p, pair, cold, tier, ch, nch)
        p['samples'].append({'mode': 'sched', 'pair': [list(pair[0]), list(pair[1])], 'cold_start': cold, 'preemptions': 1})
    elif mode == 'sched2':
        pi, ch, nch = k
        explore_two_preemptions(p, SCHED2_PAIRS[pi], ch, nch)
        p['samples'].append({'mode': 'sched2', 'pair': [list(c) for c in SCHED2_PAIRS[pi]], 'preemptions': 2, 'granularity': 'call'})
    elif mode == 'freerun':
        free_running(p, rounds=2 if tier == 'quick' else 6)
        p['samples'].append({'mode': 'freerun', 'threads': 6, 'note': 'supplementary pass, not the deciding step'})
    elif mode == 'schedw':
        pi, ch, nch, stride = k
        explore_cold_writes(p, SCHEDW_PAIRS[pi], ch, nch, stride)
        p['samples'].append({'mode': 'schedw', 'pair': [list(c) for c in SCHEDW_PAIRS[pi]], 'preemptions': 1, 'points': 'writes to shared grammar elements, cold start'})
    elif mode == 'sched3':
        ti, ch, nch = k
        explore_three_threads(p, SCHED3_TRIPLES[ti], ch, nch)
        p['samples'].append({'mode': 'sched3', 'threads': [list(c) for c in SCHED3_TRIPLES[ti]], 'preemptions': 1})
    else:
        check_fresh(p, CALLS[k:k + 13])
        p['samples'].append({'mode': 'fresh', 'calls': [list(c) for c in CALLS[k:k + 2]]})
    # shared-state graph facts observed by this unit (evidence only; the verdict is the outcome comparison)
    states = set()
    doc_dependent = 0
    for key, v in graph.items():
        if key[0] == 'doc-dependence':
            if len(v) > 1:
                doc_dependent += 1
        else:
            states.add(key[0])
            states |= v
    p['extra']['shared_state_edges_determined_by_document'] = doc_dependent
    p['sets']['shared_grammar_states'] = {x for x in states if x}
    p['sets']['shared_grammar_edges'] = {(k[0], k[1], s) for k, v in graph.items() if k[0] != 'doc-dependence' for s in v}
    return p


def finish(ctx):
    pass


def _retuple(x):
    return tuple(_retuple(i) for i in x) if isinstance(x, list) else x


def replay(case):
    ensure_init()
    p = new_part()
    if case['mode'] == 'pollution':
        vs = []
        for u in case['units']:
            vs += work(_retuple(u))['violations']
        probe_pollution(p)
        return p['violations'] + [v for v in vs if v['kind'] == 'later-parses-changed-by-earlier-calls']
    if case['mode'] == 'hist' and 'history' in case:
        run_history(p, case['start'], tuple(tuple(c) for c in case['history']), {}, False)
        check_census(p, case, 'after the history')
    elif case['mode'] == 'alias' and 'second' in case:
        check_alias(p, tuple(case['first']), tuple(case['second']))
    elif case['mode'] == 'sched':
        pair = (tuple(case['pair'][0]), tuple(case['pair'][1]))
        if 'switches' in case:
            run_schedule(p, pair, case['first'], tuple(tuple(s) for s in case['switches']), case['cold'], {k: case[k] for k in ('mode', 'pair', 'cold')})
        else:
            explore_pair(p, pair, case['cold'], 'quick')
    elif case['mode'] in ('sched2', 'sched3', 'schedw'):
        calls = tuple(tuple(c) for c in case['pair'])
        if 'switches' in case:
            run_schedule(p, calls, case['first'], tuple(tuple(s) for s in case['switches']), case.get('cold', False), {k: case[k] for k in ('mode', 'pair', 'cold')},
                         case.get('granularity', 'line'))
    elif case['mode'] == 'freerun':
        free_running(p)
    elif case['mode'] == 'fresh':
        check_fresh(p, [tuple(case['call'])])
    else:
        # census failures of a whole unit: re-run the unit's family
        if case['mode'] == 'hist':
            k = CALLS.index(tuple(case['first'])) if tuple(case['first']) in CALLS else 0
            return work(('hist2', k, 'quick'))['violations']
        if case['mode'] == 'alias':
            return work(('alias', CALLS.index(tuple(case['first'])), 'quick'))['violations']
    return p['violations']
