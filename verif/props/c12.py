"""C12 — all documented ways of supplying the source give the same database.

Exhaustive configuration product: 9 routes x {BOM, no BOM} x option sets {default, allow_properties, custom SQL renderer,
custom DBML renderer, all three} (on every route whose signature accepts options) x a document set (ASCII, non-ASCII, with
properties, empty, comment-only, invalid ones).  Oracle: canonical content, `.sql`, `.dbml` and configured renderer classes
equal to route 0 (`PyDBML(str)`) for the same options; for invalid documents the same exception class on every route;
unsupported source types raise TypeError from the constructor.
"""
from __future__ import annotations

import io
import os
import pathlib
import shutil
import tempfile

from .. import asm as A
from .. import canon, writer
from ..runner import new_part, violation, digest, exc_info
from . import c01, c10, c16

PID = 'C12'
LEVEL = 'exploration'
RULE = ('routes x BOM x option sets x documents, every combination executed; a case = (document, BOM, option set) compared across all routes; '
        'distinct_nontrivial = distinct (document, BOM, options, route) parses compared with the reference route')
ASSUMPTIONS = ['files are written by the harness as UTF-8 into a fresh temporary directory that is removed afterwards',
               'open files are opened with newline="" so that the library receives the same characters on every route (Python would otherwise translate CRLF)',
               'PyDBML.parse_file takes no options (its signature); it is compared with the default option set only']

ROUTES = ['PyDBML(str)', 'PyDBML(Path)', 'PyDBML(open file)', 'PyDBML.parse(str)', 'PyDBML().parse(str)',
          'parse_file(str path)', 'parse_file(Path)', 'parse_file(open file)', 'PyDBML(open file, utf-8-sig codec)']
TAKES_OPTIONS = {0, 1, 2, 3, 4, 8}
OPTION_SETS = ['default', 'props', 'sqlr', 'dbmlr', 'all']


def bounds(tier):
    return {'routes': len(ROUTES), 'option_sets': len(OPTION_SETS), 'documents': len(documents()), 'bom': [False, True, 'two marks']}


def documents():
    docs = []
    docs.append(('start-model', writer.write(c10.start_model()), False))
    docs.append(('non-ascii-names', writer.write(c01.ident_model('table', 'é'), writer.Style(quote='quoted')), False))
    m = c01.ident_base()
    m['tables'][0]['note'] = 'naïve — note ☃'
    m['tables'][0]['columns'][0]['note'] = 'çà'
    m['notes'][0]['text'] = 'ünïcödé\nzwei'
    m['project']['items'] = [['k', 'vé']]
    m['tables'][0]['comment'] = 'comment é'
    docs.append(('non-ascii-text', writer.write(m), False))
    mp = c01.ident_base()
    mp['tables'][0]['properties'] = [['k', 'v'], ['k 2', 'é']]
    mp['tables'][0]['columns'][0]['properties'] = [['ck', 'cv']]
    mp['allow_properties'] = True
    docs.append(('properties', writer.write(mp), True))
    docs.append(('empty', '', False))
    docs.append(('newline-only', '\n\n', False))
    docs.append(('comment-only', '// just a comment\n/* and a block */\n', False))
    docs.append(('one-table-no-eol', 'Table t {\n  id int\n}', False))
    docs.append(('crlf', 'Table t {\r\n  id int\r\n}\r\n', False))
    docs.append(('crlf-comment-note', "// about t\r\nTable t {\r\n  id int // trailing\r\n  Note: '''line one\r\n  line two'''\r\n}\r\n", False))
    for name in ('Ta', 'E', 'Tb_inl'):
        mm, order, ok = c01.state_model(('Ta', name) if name != 'Ta' else ('Ta', 'N'))
        docs.append((f'bfs-{name}', writer.write(mm, writer.Style(case='upper', airy=True), order), False))
    # invalid documents: every route must raise the same exception class
    docs.append(('invalid-syntax', 'Table t {\n  id int [\n}\n', False))
    docs.append(('invalid-stray', 'Table t {\n  id int\n}\n;\n', False))
    docs.append(('invalid-dup-table', 'Table t {\n  id int\n}\nTable t {\n  id int\n}\n', False))
    docs.append(('invalid-missing-table', 'Table t {\n  id int\n}\nRef: t.id > u.id\n', False))
    docs.append(('invalid-no-columns', 'Table t {\n}\n', False))
    docs.append(('invalid-bom-in-the-middle', 'Table t {\n  id int\n}\n﻿Table u {\n  id int\n}\n', False))
    return docs


def option_kwargs(optset):
    kw = {}
    if optset in ('props', 'all'):
        kw['allow_properties'] = True
    if optset in ('sqlr', 'all'):
        kw['sql_renderer'] = c16.make_renderer('SQLX', 'all')
    if optset in ('dbmlr', 'all'):
        kw['dbml_renderer'] = c16.make_renderer('DBMLX', 'table')
    return kw


def run_route(route, text, path, kw):
    """-> ('db', db) | ('raised', exception)"""
    from pydbml import PyDBML
    try:
        if route == 0:
            return 'db', PyDBML(text, **kw)
        if route == 1:
            return 'db', PyDBML(pathlib.Path(path), **kw)
        if route == 2:
            with open(path, encoding='utf8', newline='') as f:
                return 'db', PyDBML(f, **kw)
        if route == 3:
            return 'db', PyDBML.parse(text, **kw)
        if route == 4:
            return 'db', PyDBML().parse(text, **kw)
        if route == 5:
            return 'db', PyDBML.parse_file(str(path))
        if route == 6:
            return 'db', PyDBML.parse_file(pathlib.Path(path))
        if route == 7:
            with open(path, encoding='utf8', newline='') as f:
                return 'db', PyDBML.parse_file(f)
        if route == 8:
            with open(path, encoding='utf-8-sig', newline='') as f:
                return 'db', PyDBML(f, **kw)
    except Exception as e:
        return 'raised', e


def describe(kind, val, kw):
    if kind == 'raised':
        return {'raised': type(val).__name__}
    d = {'canon': canon.key(canon.canon(val)), 'allow_properties': val.allow_properties,
         'sql_renderer': val.sql_renderer.__name__, 'dbml_renderer': val.dbml_renderer.__name__}
    for which in ('sql', 'dbml'):
        try:
            d[which] = getattr(val, which)
        except Exception as e:
            d[which] = f'<raises {type(e).__name__}>'
    return d


def check_case(p, tmp, docname, text, needs_props, bom, optset):
    if needs_props and optset not in ('props', 'all'):
        expect_note = 'document uses properties with the option off: every route must raise alike'
    body = ('﻿' * int(bom) + text) if bom else text          # bom: False, True (one mark) or 2 (two marks: must be treated alike by every route)
    path = os.path.join(tmp, f'{docname}-{int(bom)}.dbml')
    if not os.path.exists(path):
        with open(path, 'w', encoding='utf8', newline='') as f:
            f.write(body)
    kw = option_kwargs(optset)
    ref_kind, ref_val = run_route(0, body, path, kw)
    ref = describe(ref_kind, ref_val, kw)
    p['outcomes'][f'reference/{"raised:" + ref["raised"] if ref_kind == "raised" else "parsed"}'] += 1
    for r in range(1, len(ROUTES)):
        if r not in TAKES_OPTIONS and optset != 'default':
            continue
        if r == 8 and bom == 2:
            continue        # (that codec removes one mark itself, so a different text would reach the library)
        kind, val = run_route(r, body, path, kw)
        got = describe(kind, val, kw)
        p['evaluations'] += 1
        case = {'document': docname, 'bom': bom, 'options': optset, 'route': ROUTES[r]}
        p['nontrivial'].add(digest(case))
        if got != ref:
            keys = [k for k in set(got) | set(ref) if got.get(k) != ref.get(k)]
            p['violations'].append(violation(PID, 'route-differs', case, expected={k: str(ref.get(k))[:200] for k in keys},
                                             observed={k: str(got.get(k))[:200] for k in keys},
                                             detail=f'{ROUTES[r]} differs from {ROUTES[0]} on {keys} for document {docname!r} (bom={bom}, options={optset}): '
                                                    f'{str(got.get(keys[0]))[:100]!r} vs {str(ref.get(keys[0]))[:100]!r}'))
            p['outcomes'][f'{ROUTES[r]}/differs'] += 1
        else:
            p['outcomes'][f'{ROUTES[r]}/same'] += 1
    # the BOM must be ignored: with and without BOM the reference route gives the same database
    if bom is True:
        k0, v0 = run_route(0, text, path, kw)
        d0 = describe(k0, v0, kw)
        if d0 != ref:
            keys = [k for k in set(d0) | set(ref) if d0.get(k) != ref.get(k)]
            p['violations'].append(violation(PID, 'bom-not-ignored', {'document': docname, 'bom': True, 'options': optset, 'route': ROUTES[0]},
                                             detail=f'a leading BOM changes the result of {ROUTES[0]} on {keys}'))


def check_types(p):
    from pydbml import PyDBML
    for label, src in (('bytes', b'Table t {\n id int\n}'), ('bytearray', bytearray(b'x')), ('int', 5), ('float', 1.5), ('list', ['Table']),
                       ('tuple', ('a',)), ('dict', {}), ('StringIO', io.StringIO('Table t {\n id int\n}')), ('BytesIO', io.BytesIO(b'x')),
                       ('object', object()), ('bool', True), ('set', set())):
        p['evaluations'] += 1
        case = {'source_type': label}
        p['nontrivial'].add(digest(case))
        try:
            r = PyDBML(src)
            p['violations'].append(violation(PID, 'unsupported-source-accepted', case, observed=repr(r)[:100], detail=f'PyDBML({label}) returned {type(r).__name__} instead of raising TypeError'))
        except TypeError:
            p['outcomes']['types/TypeError'] += 1
        except Exception as e:
            p['violations'].append(violation(PID, 'unsupported-source-wrong-error', case, observed=exc_info(e), detail=f'PyDBML({label}) raised {type(e).__name__}, expected TypeError'))


def units(tier, seed):
    us = [('docs', k) for k in range(len(documents()))]
    us.append(('types', None))
    return us


def work(unit):
    p = new_part()
    if unit[0] == 'types':
        check_types(p)
        p['samples'].append({'unsupported source types': 12})
        return p
    name, text, needs_props = documents()[unit[1]]
    tmp = tempfile.mkdtemp(prefix='verif_c12_')
    try:
        for bom in (False, True, 2):
            for optset in OPTION_SETS:
                check_case(p, tmp, name, text, needs_props, bom, optset)
    finally:
        shutil.rmtree(tmp, ignore_errors=True)
    p['samples'].append({'document': name, 'text': text[:120]})
    return p


def replay(case):
    p = new_part()
    if 'source_type' in case:
        check_types(p)
        return [v for v in p['violations'] if v['case'] == case]
    tmp = tempfile.mkdtemp(prefix='verif_c12_')
    try:
        for name, text, needs in documents():
            if name == case['document']:
                check_case(p, tmp, name, text, needs, case['bom'], case['options'])
    finally:
        shutil.rmtree(tmp, ignore_errors=True)
    return [v for v in p['violations'] if v['case'].get('route') == case.get('route')] or p['violations']
