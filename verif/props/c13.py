"""C13 — free text survives: notes normalise idempotently, no text breaks its literal.

Exhaustive strings: every string up to the length bound over the critical alphabet {a, space, newline, ', ", \\, `} and
every string of length <= 2 over the extended alphabet (adds { } [ ] # / * : , é ( ) . -), placed at every text-bearing
site of one document (table / column / index / enum-item / group / project / sticky notes, project field, table and column
property values, string default, index name, expression default and expression index subject), with sentinel elements
before and after.

  parse   the text written by the harness's own escaper in each string style that can hold it must be stored as the
          reference normalisation at note sites and verbatim elsewhere; all styles agree; re-writing the stored text and
          parsing again changes nothing (idempotence); the sentinels are untouched
  render  for every text in stored form: API-built and parsed databases -> `.dbml` -> parse returns the same text at the same
          site and identical sentinels
  sql     table / column notes appear as exactly one COMMENT ON ... IS '<single literal>' whose content is the text with its
          single quotes neutralised; expression text appears verbatim inside parentheses
"""
from __future__ import annotations

import itertools

from .. import asm as A
from .. import builder, canon, ddl, writer
from ..runner import new_part, violation, digest, exc_info

PID = 'C13'
LEVEL = 'exploration'
RULE = ('all strings up to the length bound over the critical alphabet + all strings of length <= 2 over the extended alphabet, each placed at '
        'all text-bearing sites of one document (isolated per site on failure); parse side in every admissible string style, render side from '
        'API-built and parsed databases, SQL side via the DDL reader; distinct_nontrivial = distinct (text, side) pairs evaluated')
ASSUMPTIONS = ['tab is not a printable character and not in the alphabets (pyparsing expands tabs before parsing)',
               'a text with no non-blank line has no stated normal form: it is checked for agreement across styles and idempotence only',
               'the harness escaper writes backslash as \\\\ and the delimiter quote as \\-quote; raw newlines only inside triple quotes']

CRITICAL = ['a', ' ', '\n', "'", '"', '\\', '`']
EXTENDED = CRITICAL + ['{', '}', '[', ']', '#', '/', '*', ':', ',', 'é', '(', ')', '.', '-']

NOTE_SITES = ['table.note', 'column.note', 'index.note', 'item.note', 'group.note', 'project.note', 'sticky.text']
BLOCK_NOTE_SITES = ['table.note', 'group.note', 'project.note', 'sticky.text']          # rendered as Note { ... } blocks
VERBATIM_SITES = ['project.field', 'table.prop', 'column.prop', 'column.default', 'index.name']
EXPR_SITES = ['expr.default', 'expr.subject']
SITES = NOTE_SITES + VERBATIM_SITES + EXPR_SITES
SETTINGS_POSITION = ['column.note', 'index.note', 'item.note', 'project.field', 'table.prop', 'column.prop', 'column.default', 'index.name']


def bounds(tier):
    return {'critical_alphabet': CRITICAL, 'critical_max_len': 3 if tier == 'quick' else 5, 'extended_alphabet': EXTENDED, 'extended_max_len': 2, 'line_alphabet_max_lines': 3 if tier == 'quick' else 4,
            'sites': SITES}


def texts(tier):
    n = 3 if tier == 'quick' else 5
    out = []
    for k in range(1, n + 1):
        out += [''.join(t) for t in itertools.product(CRITICAL, repeat=k)]
    seen = set(out)
    for k in (1, 2):
        for t in itertools.product(EXTENDED, repeat=k):
            s = ''.join(t)
            if s not in seen:
                seen.add(s)
                out.append(s)
    # every text of 1-3 lines (quick) / 1-4 lines (thorough) over a small alphabet of lines: indentation shapes the character
    # enumeration cannot reach (blank lines holding fewer blanks than the indentation, ...)
    LINES = ['', ' ', '  ', 'a', ' a', '  a', '   a', 'a ']
    for k in range(1, (3 if tier == 'quick' else 4) + 1):
        for ls in itertools.product(LINES, repeat=k):
            s = '\n'.join(ls)
            if s not in seen and s != '':
                seen.add(s)
                out.append(s)
    # a few longer, realistic ones
    out += ['  indented\n    more\n  back', '\n\n  lead and trail  \n\n', "it's a \"quoted\" \\ path\\to", "'''", "a'''b", "x\n\n\ny",
            'line1\\\nline2', "end with quote'", 'end with backslash\\', "\\'", '-- not a comment', "'); DROP TABLE x; --"]
    return out


def normalise_ref(text):
    """The statement's normalisation: drop leading / trailing blank lines, remove the indentation common to all non-blank lines.
    -> normal form, or None when the text has no non-blank line or mixes tab and space in indentation (not predicted)."""
    lines = text.split('\n')

    def blank(l):
        return l.strip(' \t') == ''
    if all(blank(l) for l in lines):
        return None
    while blank(lines[0]):
        lines.pop(0)
    while blank(lines[-1]):
        lines.pop()
    ind = min(len(l) - len(l.lstrip(' \t')) for l in lines if not blank(l))
    return '\n'.join(l[ind:] for l in lines)


def applicable(site, t):
    if site in NOTE_SITES:
        return t != ''
    if site == 'index.name':
        return t != ''
    if site in EXPR_SITES:
        return '`' not in t
    return True


def site_model(assign):
    """assign: site -> text (missing = site not used).  One document with every site and sentinels."""
    g = assign.get
    col = A.col('c', 'int', note=g('column.note', ''), default=['str', g('column.default')] if 'column.default' in assign else None,
                properties=[['cp', g('column.prop')]] if 'column.prop' in assign else None)
    cols = [A.col('s1', 'int', note='sentinel one'), col]
    if 'expr.default' in assign:
        cols.append(A.col('e', 'int', default=['expr', g('expr.default')]))
    cols.append(A.col('s2', 'varchar', default=['str', 'sentinel two']))
    idx = [A.index(['c'], name=g('index.name', None), note=g('index.note', ''))]
    if 'expr.subject' in assign:
        idx.append(A.index([['expr', g('expr.subject')], ['col', 's1']]))
    idx.append(A.index(['s2'], name='sentinel index'))
    t = A.table('t', cols, note=g('table.note', ''), indexes=idx, properties=[['tp', g('table.prop')]] if 'table.prop' in assign else None)
    after = A.table('after', [A.col('id', 'int', note='sentinel after')], note='after note')
    e = A.enum('e', [A.item('first'), A.item('i', note=g('item.note', '')), A.item('last', note='sentinel item')])
    grp = A.group('g', [['public', 't']], note=g('group.note', ''))
    proj = A.project('p', [['before', 'sentinel']] + ([['f', g('project.field')]] if 'project.field' in assign else []) + [['after', 'sentinel']],
                     note=g('project.note', ''))
    notes = [A.sticky('n0', 'sentinel sticky')] + ([A.sticky('n', g('sticky.text'))] if 'sticky.text' in assign else []) + [A.sticky('n2', 'sentinel sticky 2')]
    return A.model(tables=[t, after], enums=[e], groups=[grp], notes=notes, project=proj, allow_properties=True)


def extract(c):
    """canonical database -> (site -> text, rest with the site texts blanked)"""
    c = A.clone(c)
    out = {}
    t = c['tables'][0]
    out['table.note'] = t['note']
    t['note'] = ''
    for col in t['columns']:
        if col['name'] == 'c':
            out['column.note'] = col['note']
            col['note'] = ''
            if col['default'][0] == 'str':
                out['column.default'] = col['default'][1]
            elif col['default'][0] != 'none':
                out['column.default'] = col['default']
            col['default'] = ['none']
            if col['properties']:
                out['column.prop'] = col['properties'][0][1] if len(col['properties']) == 1 and col['properties'][0][0] == 'cp' else col['properties']
            col['properties'] = []
        if col['name'] == 'e':
            out['expr.default'] = col['default'][1] if col['default'][0] == 'expr' else col['default']
            col['default'] = ['none']
    for i in t['indexes']:
        if i['subjects'] == [['col', 'c']]:
            out['index.note'] = i['note']
            out['index.name'] = i['name']
            i['note'], i['name'] = '', None
        elif len(i['subjects']) == 2 and i['subjects'][1] == ['col', 's1']:
            out['expr.subject'] = i['subjects'][0][1] if i['subjects'][0][0] == 'expr' else i['subjects'][0]
            i['subjects'][0] = ['expr', '']
    if t['properties']:
        out['table.prop'] = t['properties'][0][1] if len(t['properties']) == 1 and t['properties'][0][0] == 'tp' else t['properties']
    t['properties'] = []
    for it in c['enums'][0]['items']:
        if it['name'] == 'i':
            out['item.note'] = it['note']
            it['note'] = ''
    out['group.note'] = c['groups'][0]['note']
    c['groups'][0]['note'] = ''
    p = c['project']
    out['project.note'] = p['note']
    p['note'] = ''
    kept = []
    for k, v in p['items']:
        if k == 'f':
            out['project.field'] = v
        else:
            kept.append([k, v])
    p['items'] = kept
    kept = []
    for n in c['notes']:
        if n['name'] == 'n':
            out['sticky.text'] = n['text']
        else:
            kept.append(n)
    c['notes'] = kept
    return out, c


def parse(text):
    from pydbml import PyDBML
    return PyDBML(text, allow_properties=True)


STYLES = {'s': writer.Style(string='s'), 'd': writer.Style(string='d', quote='quoted', multiline='trail'),
          't': writer.Style(string='t', note_form='block', airy=True)}


def expected_sites(assign, side):
    """what each used site must hold after parsing text written from ``assign``"""
    exp = {}
    for site, t in assign.items():
        if site in NOTE_SITES:
            exp[site] = normalise_ref(t)          # None = not predicted
        else:
            exp[site] = t
    return exp


def compare_sites(assign, got_sites, exp):
    bad = []
    for site in assign:
        if exp[site] is None:
            continue
        g = got_sites.get(site)
        if g != exp[site]:
            bad.append([site, g, exp[site]])
    return bad


REST0 = None


def rest_reference():
    global REST0
    if REST0 is None:
        _, REST0 = extract(writer.expected(site_model({})))
    return REST0


def rest_for(assign):
    _, r = extract(writer.expected(site_model({k: 'x' for k in assign})))
    return r


def check_parse(p, t, assign, label):
    """-> list of (site, style) failures"""
    fails = []
    stored = {}
    styles_used = ['t'] if any('\n' in v for v in assign.values()) else ['s', 'd', 't']
    for sk in styles_used:
        st = STYLES[sk]
        m = site_model(assign)
        text = writer.write(m, st)
        p['evaluations'] += 1
        try:
            db = parse(text)
        except Exception as e:
            fails.append(('parse-raised', sk, None, f'{type(e).__name__}: {str(e)[:120]}', text, type(e).__name__, 'parses'))
            continue
        got, rest = extract(canon.canon(db))
        if not canon.same(canon.strip_comments(rest), canon.strip_comments(rest_for(assign))):
            d = canon.diff(canon.strip_comments(rest), canon.strip_comments(rest_for(assign)))
            fails.append(('neighbours-changed', sk, None, d[0], text, d, None))
        bad = compare_sites(assign, got, expected_sites(assign, 'parse'))
        for site, g, e in bad:
            fails.append(('stored-text-differs', sk, site, f'{site}: stored {g!r}, expected {e!r}', text, g, e))
        stored[sk] = got
    # all styles agree (also where no value is predicted)
    keys = list(stored)
    for a, b in zip(keys, keys[1:]):
        for site in assign:
            if stored[a].get(site) != stored[b].get(site):
                fails.append(('styles-disagree', a + b, site, f'{site}: style {a} stores {stored[a].get(site)!r}, style {b} stores {stored[b].get(site)!r}', '', stored[a].get(site), stored[b].get(site)))
    # idempotence: writing the stored text again and parsing returns it unchanged
    if stored:
        s0 = stored[keys[-1]]
        again = {site: s0[site] for site in assign if isinstance(s0.get(site), str) and applicable(site, s0[site])}
        if again:
            try:
                db2 = parse(writer.write(site_model(again), STYLES['t']))
                got2, _ = extract(canon.canon(db2))
                for site, v in again.items():
                    if got2.get(site) != v:
                        fails.append(('normalisation-not-idempotent', 't', site, f'{site}: stored {v!r}, stored again {got2.get(site)!r}', '', got2.get(site), v))
            except Exception as e:
                fails.append(('parse-raised', 't', None, f'second pass: {type(e).__name__}: {str(e)[:100]}', '', type(e).__name__, 'parses'))
    return fails


def check_render(p, t, assign, route):
    """assign holds texts in stored form.  -> failures"""
    fails = []
    m = site_model(assign)
    try:
        if route == 'api':
            db0 = builder.build(writer.expected(m))
        else:
            db0 = parse(writer.write(m, STYLES['t']))
    except Exception as e:
        return [('source-unavailable', route, None, f'{type(e).__name__}: {str(e)[:100]}', '', type(e).__name__, None)]
    p['evaluations'] += 1
    try:
        text = db0.dbml
    except Exception as e:
        return [('render-raised', route, None, f'{type(e).__name__}: {str(e)[:100]}', '', type(e).__name__, None)]
    try:
        db1 = parse(text)
    except Exception as e:
        return [('rendered-text-unparsable', route, None, f'{type(e).__name__}: {str(e)[:120]}', text, type(e).__name__, 'parses')]
    got, rest = extract(canon.canon(db1))
    want_rest = canon.strip_comments(rest_for(assign))
    if not canon.same(canon.partition_refs(canon.strip_comments(rest)), canon.partition_refs(want_rest)):
        d = canon.diff(canon.strip_comments(rest), want_rest)
        fails.append(('neighbours-changed', route, None, d[0], text, d, None))
    for site, v in assign.items():
        if got.get(site) != v:
            fails.append(('text-changed-by-round-trip', route, site, f'{site}: {v!r} came back as {got.get(site)!r}', text, got.get(site), v))
    return fails


def report(p, fails, t, side, assign_sites):
    for kind, how, site, detail, text, got, exp in fails:
        case = {'text': t, 'side': side, 'how': how, 'site': site, 'sites': sorted(assign_sites), 'document': text[:1500] if text else None}
        p['violations'].append(violation(PID, kind, case, expected=exp, observed=got, detail=f'text {t!r}: {detail}'))


def isolate(p, t, assign, side, fn):
    """re-run one site at a time so that a replay is a single site"""
    any_f = False
    for site in assign:
        f = fn({site: assign[site]})
        if f:
            any_f = True
            report(p, f, t, side, [site])
    return any_f


def check_text(p, t):
    # ---- parse side
    used = {s: t for s in SITES if applicable(s, t)}
    if '\n' in t:
        groups = [{s: v for s, v in used.items() if s in BLOCK_NOTE_SITES + EXPR_SITES}, {s: v for s, v in used.items() if s not in BLOCK_NOTE_SITES + EXPR_SITES}]
    else:
        groups = [used]
    for assign in groups:
        if not assign:
            continue
        f = check_parse(p, t, assign, 'parse')
        p['outcomes']['parse/' + ('ok' if not f else 'fail')] += 1
        if f and len(assign) > 1:
            if not isolate(p, t, assign, 'parse', lambda a: check_parse(p, t, a, 'parse')):
                report(p, f, t, 'parse(only with all sites)', assign)
        elif f:
            report(p, f, t, 'parse', assign)
    p['nontrivial'].add(digest(['parse', t]))
    # ---- render side: stored-form texts
    stored = {}
    for s in SITES:
        if not applicable(s, t):
            continue
        if s in NOTE_SITES:
            n = normalise_ref(t)
            if n is None or n != t:
                continue            # not in stored form: no parse can produce it
        stored[s] = t
    if stored:
        if '\n' in t:
            groups = [{s: v for s, v in stored.items() if s in BLOCK_NOTE_SITES}, {s: v for s, v in stored.items() if s not in BLOCK_NOTE_SITES}]
        else:
            groups = [stored]
        for route in ('api', 'parsed'):
            for assign in groups:
                if not assign:
                    continue
                f = check_render(p, t, assign, route)
                p['outcomes'][f'render/{route}/' + ('ok' if not f else 'fail')] += 1
                if f and len(assign) > 1:
                    if not isolate(p, t, assign, f'render/{route}', lambda a: check_render(p, t, a, route)):
                        report(p, f, t, f'render/{route}(only with all sites)', assign)
                elif f:
                    report(p, f, t, f'render/{route}', assign)
        p['nontrivial'].add(digest(['render', t]))
    # ---- SQL side
    check_sql(p, t)


def check_sql(p, t):
    from pydbml import Database
    from pydbml.classes import Column, Expression, Index, Table
    if t != '':
        db = Database()
        tb = Table('t', note=t)
        tb.add_column(Column('c', 'int', note=t))
        tb.add_column(Column('d', 'int'))
        db.add(tb)
        p['evaluations'] += 1
        case = {'text': t, 'side': 'sql', 'how': 'api', 'site': 'table.note+column.note', 'sites': ['table.note', 'column.note']}
        try:
            sql = db.sql
            st = ddl.read(sql)
        except ddl.DDLError as e:
            p['violations'].append(violation(PID, 'sql-literal-broken', case, observed=sql[:800], detail=f'text {t!r}: the SQL script cannot be read: {e}'))
            return
        except Exception as e:
            p['violations'].append(violation(PID, 'render-raised', case, observed=exc_info(e), detail=f'text {t!r}: .sql raised {type(e).__name__}: {e}'))
            return
        com = [s for s in st if s['kind'] == 'comment_on']
        cont = t.replace('\\\n', '')
        allowed = {t.replace("'", '"'), t, cont.replace("'", '"'), cont}
        ok = len(com) == 2 and {c['entity'] for c in com} == {'TABLE', 'COLUMN'} and all(c['text'] in allowed for c in com) \
            and len([s for s in st if s['kind'] == 'table']) == 1 and len(st) == 3
        p['outcomes']['sql/notes/' + ('ok' if ok else 'fail')] += 1
        if not ok:
            p['violations'].append(violation(PID, 'sql-note-not-one-neutralised-literal', case, observed=sql[:800],
                                             detail=f'text {t!r}: expected one CREATE TABLE and two COMMENT ON with the neutralised text, got {[(s["kind"], s.get("text")) for s in st]}'))
    if '`' not in t:
        db = Database()
        tb = Table('t')
        tb.add_column(Column('c', 'int', default=Expression(t)))
        tb.add_index(Index([Expression(t), tb.columns[0]]))
        db.add(tb)
        p['evaluations'] += 1
        case = {'text': t, 'side': 'sql', 'how': 'api', 'site': 'expr', 'sites': ['expr.default', 'expr.subject']}
        try:
            sql = db.sql
        except Exception as e:
            p['violations'].append(violation(PID, 'render-raised', case, observed=exc_info(e), detail=f'text {t!r}: .sql raised {type(e).__name__}: {e}'))
            return
        ok = f'DEFAULT ({t})' in sql and f'(({t}), "c")' in sql
        p['outcomes']['sql/expr/' + ('ok' if ok else 'fail')] += 1
        if not ok:
            p['violations'].append(violation(PID, 'sql-expression-not-verbatim', case, observed=sql[:1500], detail=f'text {t!r}: expression text does not appear verbatim inside parentheses'))
    p['nontrivial'].add(digest(['sql', t]))


def units(tier, seed):
    ts = texts(tier)
    n = 40
    return [('texts', k, min(len(ts), k + n), tier) for k in range(0, len(ts), n)]


def work(unit):
    _, lo, hi, tier = unit
    p = new_part()
    ts = texts(tier)[lo:hi]
    for t in ts:
        check_text(p, t)
    p['samples'].append({'text': ts[0], 'sites': SITES})
    return p


def replay(case):
    p = new_part()
    t = case['text']
    side = case['side']
    sites = case['sites']
    if side.startswith('parse'):
        f = check_parse(p, t, {s: t for s in sites}, 'parse')
        report(p, f, t, side, sites)
    elif side.startswith('render'):
        route = 'api' if 'api' in side else 'parsed'
        f = check_render(p, t, {s: t for s in sites}, route)
        report(p, f, t, side, sites)
    else:
        check_sql(p, t)
    return p['violations']
