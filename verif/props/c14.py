"""C14 — comments are captured on the element they belong to and are otherwise inert.

Metamorphic, exhaustive over placements: base documents are written by the harness writer as token lists with labelled
zero-width slots; a comment is injected at every slot where the frozen admissibility table (ADMISSIBLE, written down once
from the pinned grammar and never learnt at run time) allows its form, for every comment content.

Oracle per commented document:
  inert     canon(parse(commented), comments=False) == canon(parse(base), comments=False)
  capture   at the positions the statement names (directly above a table / enum / enum item / index / reference / project /
            group; trailing a reference / index / column / enum-item line) the element's `comment` is the comment text and no
            other element's comment changes; elsewhere at most the adjacent element's comment may change; a trailing comment
            wins over one above (pairs)
  render    `.dbml` re-parses to the same comment attributes; `.dbml` and `.sql` carry every comment line as its own `//` / `--`
            line; reading `.sql` back with the DDL reader gives the statements of the comment-free database (comment text never
            becomes part of a statement)
"""
from __future__ import annotations

import re

from .. import asm as A
from .. import canon, ddl, writer
from ..runner import new_part, violation, digest, exc_info
from ..writer import Tok
from . import c10

PID = 'C14'
LEVEL = 'exploration'
RULE = ('base documents x every slot of the writer token stream x every admissible comment form x every comment content (one comment per '
        'document; thorough: all above+trailing pairs on the elements that can carry both); distinct_nontrivial = distinct commented documents '
        'that parsed and were compared with their base')
ASSUMPTIONS = ['admissible positions are the frozen table ADMISSIBLE (slot kind, element kind, form), taken from the comment slots of the pinned grammar',
               'comment text is compared modulo blanks at the ends of each line (the grammar skips blanks after // and keeps those before */)',
               'a `//` comment is only placed where nothing else follows on its line']

# (after a brace and at the end of a line only the forms that stay on that line are used: an own-line form would start mid-line;
# own-line comments there are the `above` / `member` / `beforeclose` slots of what follows)
# forms: line = "// text" on its own line; blockline = "/* text */" on its own line; block = "/* text */" inline; trail = " // text" at end of line
OWN = ('line', 'blockline', 'block')
ADMISSIBLE = {
    ('bof', ''): OWN, ('eof', ''): ('block', 'trail'),
    ('above', 'table'): OWN, ('above', 'enum'): OWN, ('above', 'enum.item'): OWN, ('above', 'ref'): OWN, ('above', 'group'): OWN,
    ('above', 'project'): OWN, ('above', 'sticky'): OWN, ('above', 'table.col'): OWN, ('above', 'table.idx'): OWN,
    ('member', 'group.item'): OWN, ('member', 'project.item'): OWN, ('member', 'project.note'): OWN, ('member', 'table.indexes'): OWN,
    ('member', 'table.note'): OWN,
    ('beforeclose', 'table'): OWN, ('beforeclose', 'group'): OWN, ('beforeclose', 'project'): OWN,
    ('afterbrace', 'table'): ('block', 'trail'), ('afterbrace', 'enum'): ('block', 'trail'), ('afterbrace', 'group'): ('block', 'trail'),
    ('afterbrace', 'project'): ('block', 'trail'), ('afterbrace', 'sticky'): ('block', 'trail'),
    ('afterclose', 'table'): ('block', 'trail'), ('afterclose', 'enum'): ('block', 'trail'), ('afterclose', 'group'): ('block', 'trail'),
    ('afterclose', 'sticky'): ('block', 'trail'),
    # at the end of a line only the forms that stay on that line make sense (an own-line form would start mid-line)
    ('eol', 'ref'): ('block', 'trail'), ('eol', 'table.col'): ('block', 'trail'), ('eol', 'table.idx'): ('block', 'trail'),
    ('eol', 'enum.item'): ('block', 'trail'),
    ('presettings', 'ref'): ('block',), ('presettings', 'table.col'): ('block',), ('presettings', 'table.idx'): ('block',),
}
# positions whose capture the statement prescribes: slot kind, element kind -> the comment lands on that very element
NAMED = {('above', 'table'), ('above', 'enum'), ('above', 'enum.item'), ('above', 'table.idx'), ('above', 'ref'), ('above', 'project'), ('above', 'group'),
         ('eol', 'ref'), ('eol', 'table.idx'), ('eol', 'table.col'), ('eol', 'enum.item')}

CONTENTS = ['x', 'two words', "it's", 'say "hi"', 'tick `t`', 'open { brace', 'close } brace', '{x}', '[pk]', 'Table t {', 'Ref: a.b > c.d',
            "'); DROP TABLE x; --", 'a * b / c', '#fff', 'note: \'n\'', 'é ünï', 'path C:\\dir\\']
MULTI = ['l1\nl2\nl3', 'first\nsecond']


def bounds(tier):
    return {'bases': len(bases()), 'contents': len(CONTENTS) + len(MULTI), 'pairs': tier != 'quick'}


def bases():
    m = c10.start_model()
    m2 = A.clone(m)
    # a second base: references and the group before the tables they name, enums last
    order2 = [('ref', 1), ('ref', 2), ('group', 0), ('table', 2), ('table', 1), ('ref', 3), ('table', 0), ('note', 0), ('enum', 1), ('enum', 0), ('project', 0)]
    return [('plain', m, writer.Style(), None),
            ('airy', m, writer.Style(airy=True, ref_form='block', multiline='trail', note_form='block', idx_pos='first', quote='quoted', case='upper'), None),
            ('reordered', m2, writer.Style(addr='alias', note_pos='first', order=-1), order2)]


def norm(c):
    if c is None:
        return None
    return '\n'.join(l.strip() for l in c.split('\n'))


def comments_of(db):
    out = {}

    def rec(x, path):
        if isinstance(x, dict):
            for k, v in x.items():
                if k == 'comment':
                    out[path] = norm(v)
                else:
                    rec(v, path + '.' + k)
        elif isinstance(x, list):
            for i, v in enumerate(x):
                rec(v, f'{path}[{i}]')
    rec(canon.canon(db), '')
    return out


def element_path(slot_path, m):
    """writer slot path (table0.col1, enum0.item1, ref2, group0, project, table0.idx1) -> canonical path of that element"""
    mm = re.fullmatch(r'table(\d+)\.col(\d+)', slot_path)
    if mm:
        return f'.tables[{mm[1]}].columns[{mm[2]}]'
    mm = re.fullmatch(r'table(\d+)\.idx(\d+)', slot_path)
    if mm:
        return f'.tables[{mm[1]}].indexes[{mm[2]}]'
    mm = re.fullmatch(r'table(\d+)', slot_path)
    if mm:
        return f'.tables[{mm[1]}]'
    mm = re.fullmatch(r'enum(\d+)\.item(\d+)', slot_path)
    if mm:
        return f'.enums[{mm[1]}].items[{mm[2]}]'
    mm = re.fullmatch(r'enum(\d+)', slot_path)
    if mm:
        return f'.enums[{mm[1]}]'
    mm = re.fullmatch(r'ref(\d+)', slot_path)
    if mm:
        return f'.refs[{mm[1]}]'
    mm = re.fullmatch(r'group(\d+)', slot_path)
    if mm:
        return f'.groups[{mm[1]}]'
    if slot_path == 'project':
        return '.project'
    return None


def comment_tokens(form, text, indent=''):
    lines = text.split('\n')
    if form == 'line':
        out = []
        for l in lines:
            out += [Tok(indent + '// ' + l, 'comment'), Tok('\n', 'nl')]
        return out
    if form == 'trail':
        return [Tok(' // ' + lines[0], 'comment')]
    body = '/* ' + ('\n' + indent + '   ').join(lines) + ' */'
    if form == 'blockline':
        return [Tok(indent + body, 'comment'), Tok('\n', 'nl')]
    return [Tok(' ' + body + ' ', 'comment')]


def slots(toks):
    out = []
    for i, t in enumerate(toks):
        if t.kind == 'slot':
            kind, _, path = t.label.partition(':')
            out.append((i, kind, path, re.sub(r'\d+', '', path)))
    return out


def last_items(m):
    return {f'enum{i}.item{len(e["items"]) - 1}' for i, e in enumerate(m['enums'])}


def parse(text):
    from pydbml import PyDBML
    return PyDBML(text)


_BASE = {}


def base_info(bi):
    if bi not in _BASE:
        name, m, st, order = bases()[bi]
        toks = writer.tokens(m, st, order)
        text = ''.join(t.text for t in toks)
        db = parse(text)
        _BASE[bi] = {'toks': toks, 'text': text, 'canon': canon.canon(db, comments=False), 'comments': comments_of(db), 'sql': ddl_shape(db.sql),
                     'm': m, 'nrefs_map': ref_positions(db, m), 'pos_map': name_positions(db, m)}
    return _BASE[bi]


def ref_positions(db, m):
    """writer ref index (position in m['refs']) -> index in db.refs (the parser lists references in document order)"""
    want = [canon.key([r['type'], r['col1'], r['col2']]) for r in m['refs']]
    have = [canon.key([r['type'], r['col1'], r['col2']]) for r in canon.canon(db)['refs']]
    return {i: have.index(k) for i, k in enumerate(want) if k in have}


def name_positions(db, m):
    c = canon.canon(db)
    out = {}
    for kind in ('tables', 'enums'):
        have = [(x['schema'], x['name']) for x in c[kind]]
        out[kind] = {i: have.index((x['schema'], x['name'])) for i, x in enumerate(m[kind]) if (x['schema'], x['name']) in have}
    return out


def ddl_shape(sql):
    """statements of a script without their comments (structure only)"""
    st = ddl.read(sql)

    def strip(x):
        if isinstance(x, dict):
            return {k: strip(v) for k, v in x.items() if k not in ('comments', 'item_comments', 'pos')}
        if isinstance(x, list):
            return [strip(v) for v in x]
        return x
    return canon.key(strip(st))


def sql_comment_lines(sql):
    return [t.text.strip() for t in ddl.tokenize(sql) if t.kind == 'comment']


def check_injection(p, bi, injections, case):
    """injections: list of (token index, form, text).  Applies them (highest index first), parses, checks the oracle."""
    info = base_info(bi)
    toks = list(info['toks'])
    for idx, form, text in sorted(injections, key=lambda x: -x[0]):
        # indentation for own-line forms: that of the following token if it is whitespace
        indent = ''
        if idx < len(toks) and toks[idx].kind == 'slot' and idx + 1 < len(toks) and toks[idx + 1].kind == 'ws':
            indent = toks[idx + 1].text
        toks[idx:idx] = comment_tokens(form, text, indent)
    text = ''.join(t.text for t in toks)
    p['evaluations'] += 1
    try:
        db = parse(text)
    except Exception as e:
        p['outcomes']['rejected'] += 1
        p['violations'].append(violation(PID, 'comment-at-admissible-position-rejected', dict(case, document=text[:1500]), observed=exc_info(e),
                                         detail=f'{case["where"]}: {type(e).__name__}: {str(e)[:100]}'))
        return None
    p['nontrivial'].add(digest(text))
    if not canon.same(canon.canon(db, comments=False), info['canon']):
        d = canon.diff(canon.canon(db, comments=False), info['canon'])
        p['outcomes']['content-changed'] += 1
        p['violations'].append(violation(PID, 'comment-changes-content', dict(case, document=text[:1500]), observed=d, detail=f'{case["where"]}: {d[0]}'))
        return None
    return db, text


def changed_comments(db, bi):
    info = base_info(bi)
    now = comments_of(db)
    return {k: v for k, v in now.items() if info['comments'].get(k) != v}, now


def check_outputs(p, db, bi, expected_comments, case, text):
    """expected_comments: canonical path -> normalised comment text that must be on that element"""
    info = base_info(bi)
    # DBML output re-parses to the same comment attributes
    try:
        dbml = db.dbml
        back = parse(dbml)
    except Exception as e:
        p['violations'].append(violation(PID, 'commented-dbml-unparsable', dict(case, document=text[:1500]), observed=exc_info(e),
                                         detail=f'{case["where"]}: render / re-parse of .dbml raised {type(e).__name__}: {str(e)[:100]}'))
        return
    now = comments_of(db)
    again = comments_of(back)
    # the parser lists inline references first within their table, DBML output keeps kinds together: compare by content key
    lost = {k: (v, again.get(k)) for k, v in now.items() if v is not None and again.get(k) != v and not k.startswith('.refs[')}
    refs_now = sorted((canon.key([r['type'], r['col1'], r['col2']]), norm(r['comment'])) for r in canon.canon(db)['refs'])
    refs_again = sorted((canon.key([r['type'], r['col1'], r['col2']]), norm(r['comment'])) for r in canon.canon(back)['refs'])
    if refs_now != refs_again:
        lost['.refs'] = ('reference comments', 'differ after re-parse')
    if lost:
        k = sorted(lost)[0]
        p['violations'].append(violation(PID, 'comment-lost-by-dbml-round-trip', dict(case, document=text[:1500], element=k), expected=lost[k][0], observed=lost[k][1],
                                         detail=f'{case["where"]}: after .dbml -> parse the comment of {k} is {lost[k][1]!r}, was {lost[k][0]!r}'))
    # every line of every stored comment appears as its own // line in .dbml
    dlines = [l.strip()[2:].strip() for l in dbml.split('\n') if l.strip().startswith('//')]
    for path, c in expected_comments.items():
        for l in c.split('\n'):
            if l.strip() not in dlines:
                p['violations'].append(violation(PID, 'comment-line-missing-in-dbml', dict(case, document=text[:1500], element=path), expected='// ' + l, observed=dbml[:800],
                                                 detail=f'{case["where"]}: .dbml has no line "// {l}" for the comment of {path}'))
                break
    # SQL: reads back to the comment-free structure; the comment lines are -- lines
    try:
        sql = db.sql
        shape = ddl_shape(sql)
    except ddl.DDLError as e:
        p['violations'].append(violation(PID, 'comment-text-became-sql', dict(case, document=text[:1500]), observed=sql[:1000], detail=f'{case["where"]}: .sql cannot be read back: {e}'))
        return
    except Exception as e:
        p['violations'].append(violation(PID, 'sql-raised', dict(case, document=text[:1500]), observed=exc_info(e), detail=f'{case["where"]}: .sql raised {type(e).__name__}: {e}'))
        return
    if shape != info['sql']:
        p['violations'].append(violation(PID, 'comment-text-became-sql', dict(case, document=text[:1500]), observed=sql[:1000],
                                         detail=f'{case["where"]}: the statements of .sql differ from those of the comment-free database'))
    slines = sql_comment_lines(sql)
    for path, c in expected_comments.items():
        if path.startswith('.groups') or path == '.project':
            continue        # not emitted in SQL at all
        for l in c.split('\n'):
            if l.strip() not in slines:
                p['violations'].append(violation(PID, 'comment-line-missing-in-sql', dict(case, document=text[:1500], element=path), expected='-- ' + l, observed=sql[:1000],
                                                 detail=f'{case["where"]}: .sql has no line "-- {l}" for the comment of {path}'))
                break
    # a commented reference that is afterwards made inline (API edit) is emitted as a FOREIGN KEY clause of its table: the comment goes with it
    for path, c in expected_comments.items():
        mm = re.match(r'\.refs\[(\d+)\]$', path)
        if not mm or int(mm[1]) >= len(db.refs):
            continue
        r = db.refs[int(mm[1])]
        if r.inline or r.type == '<>':
            continue
        r.inline = True
        try:
            sql2 = db.sql
            ddl.read(sql2)
            lines2 = sql_comment_lines(sql2)
            for l in c.split('\n'):
                if l.strip() not in lines2:
                    p['violations'].append(violation(PID, 'comment-line-missing-in-sql', dict(case, document=text[:1500], element=path, edit='inline=True'), expected='-- ' + l,
                                                     observed=sql2[:1000], detail=f'{case["where"]}: after making {path} inline, .sql has no line "-- {l}" for its comment'))
                    break
        except ddl.DDLError as e:
            p['violations'].append(violation(PID, 'comment-text-became-sql', dict(case, document=text[:1500], element=path, edit='inline=True'), observed=sql2[:1000],
                                             detail=f'{case["where"]}: after making {path} inline, .sql cannot be read back: {e}'))
        except Exception as e:
            p['violations'].append(violation(PID, 'sql-raised', dict(case, document=text[:1500], element=path, edit='inline=True'), observed=exc_info(e),
                                             detail=f'{case["where"]}: after making {path} inline, .sql raised {type(e).__name__}: {e}'))
        finally:
            r.inline = False


def target_path(bi, kind, path):
    """canonical path, in the *parsed* database (document order), of the element a writer slot belongs to"""
    info = base_info(bi)
    ep = element_path(path, info['m'])
    if not ep:
        return ep
    mm = re.match(r'\.(refs|tables|enums)\[(\d+)\](.*)', ep)
    if mm:
        i = int(mm[2])
        pos = info['nrefs_map'] if mm[1] == 'refs' else info['pos_map'][mm[1]]
        if i in pos:
            ep = f'.{mm[1]}[{pos[i]}]{mm[3]}'
    return ep


def check_single(p, bi, idx, kind, path, ek, form, content):
    where = f'{kind}:{path} form={form} content={content!r} base={bases()[bi][0]}'
    case = {'mode': 'single', 'base': bi, 'slot': f'{kind}:{path}', 'token': idx, 'form': form, 'content': content, 'where': where}
    r = check_injection(p, bi, [(idx, form, content)], case)
    if r is None:
        return
    db, text = r
    changed, now = changed_comments(db, bi)
    want = norm(content)
    expected = {}
    if (kind, ek) in NAMED:
        tp = target_path(bi, kind, path)
        if now.get(tp) != want or set(changed) - {tp}:
            p['outcomes']['not-captured'] += 1
            p['violations'].append(violation(PID, 'comment-not-on-its-element', dict(case, document=text[:1500], element=tp), expected=want, observed={k: v for k, v in changed.items()} or now.get(tp),
                                             detail=f'{where}: expected on {tp}; comments that changed: {changed}'))
            return
        expected = {tp: want}
        p['outcomes']['captured'] += 1
    else:
        if len(changed) > 1 or any(v != want for v in changed.values()):
            p['violations'].append(violation(PID, 'comment-leaks-elsewhere', dict(case, document=text[:1500]), observed=changed,
                                             detail=f'{where}: a comment at a position the statement does not name changed {changed}'))
            return
        expected = dict(changed)
        p['outcomes']['inert' if not changed else 'attached-to-neighbour'] += 1
    check_outputs(p, db, bi, expected, case, text)


def check_pair(p, bi, above, eol, path, form_a, form_e):
    """a comment above and a trailing comment on the same element: the trailing one wins"""
    where = f'above+trailing on {path} forms={form_a}/{form_e} base={bases()[bi][0]}'
    case = {'mode': 'pair', 'base': bi, 'path': path, 'tokens': [above, eol], 'forms': [form_a, form_e], 'where': where}
    r = check_injection(p, bi, [(above, form_a, 'ABOVE'), (eol, form_e, 'TRAILING')], case)
    if r is None:
        return
    db, text = r
    changed, now = changed_comments(db, bi)
    tp = target_path(bi, 'eol', path)
    if now.get(tp) != 'TRAILING' or set(changed) - {tp}:
        p['violations'].append(violation(PID, 'trailing-comment-does-not-win', dict(case, document=text[:1500], element=tp), expected='TRAILING', observed=changed,
                                         detail=f'{where}: comments that changed: {changed}'))
        return
    p['outcomes']['pair/trailing-wins'] += 1
    check_outputs(p, db, bi, {tp: 'TRAILING'}, case, text)


def units(tier, seed):
    us = []
    for bi in range(len(bases())):
        n = len(slots(base_info(bi)['toks']))
        for k in range(0, n, 6):
            us.append(('single', bi, k, min(n, k + 6), tier))
        us.append(('pairs', bi, 0, 0, tier))
    return us


def work(unit):
    mode, bi, lo, hi, tier = unit
    p = new_part()
    info = base_info(bi)
    sl = slots(info['toks'])
    last = last_items(info['m'])
    if mode == 'single':
        for idx, kind, path, ek in sl[lo:hi]:
            forms = ADMISSIBLE.get((kind, ek), ())
            for form in forms:
                contents = CONTENTS + (MULTI if form != 'trail' else [])
                for content in contents:
                    check_single(p, bi, idx, kind, path, ek, form, content)
        p['samples'].append({'base': bases()[bi][0], 'slot': f'{sl[lo][1]}:{sl[lo][2]}', 'forms': list(ADMISSIBLE.get((sl[lo][1], sl[lo][3]), ()))})
    else:
        above = {path: idx for idx, kind, path, ek in sl if kind == 'above'}
        for idx, kind, path, ek in sl:
            if kind == 'eol' and path in above and ek in ('ref', 'table.idx', 'enum.item', 'table.col'):
                for fa in ('line', 'blockline'):
                    for fe in ('trail', 'block'):
                        check_pair(p, bi, above[path], idx, path, fa, fe)
        p['samples'].append({'base': bases()[bi][0], 'pairs': 'above + trailing on every reference, index, enum item and column'})
    return p


def replay(case):
    p = new_part()
    if case['mode'] == 'single':
        kind, _, path = case['slot'].partition(':')
        check_single(p, case['base'], case['token'], kind, path, re.sub(r'\d+', '', path), case['form'], case['content'])
    else:
        check_pair(p, case['base'], case['tokens'][0], case['tokens'][1], case['path'], case['forms'][0], case['forms'][1])
    return p['violations']
