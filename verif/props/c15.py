"""C15 — arbitrary properties are honoured exactly when enabled.

  same     every property-free document of the C01 derivation BFS and one pack of each C01 product is parsed with the option
           on and off: content, `.dbml`, `.sql` identical, only the database flag differs (the option swaps in a second table
           grammar, so this is a second traversal of the same state graph under the other configuration)
  store    product of table-body properties (0-2, every position relative to columns / note / index block) and column-settings
           properties (0-2, first / middle / last among 0-2 ordinary settings, one-line and multi-line lists) x keys (bare,
           quoted, keyword-like) x values (plain, quotes, padded with blanks, empty, multi-line): option on => stored exact and
           ordered, flag on, single-line values round-trip through `.dbml`; option off => the same text is a syntax error
  flips    all sequences of flag assignments of length <= 3 from both initial values on parsed and API-built databases that
           carry properties: flag off => `.dbml` equals that of the same database with every properties dict emptied; flag on =>
           `.dbml` re-parses to the full dicts
"""
from __future__ import annotations

import itertools

from .. import asm as A
from .. import builder, canon, writer
from ..runner import new_part, violation, digest, exc_info
from . import c01

PID = 'C15'
LEVEL = 'model_checking'
RULE = ('two-configuration traversal of the C01 BFS state graph (option on / off) + exhaustive property placement product + flag-flip sequences; '
        'states = documents / databases visited, transitions = parses and flag assignments; distinct_nontrivial = distinct (state or property case, style) compared')
ASSUMPTIONS = ['a property key spelled like a setting keyword (pk, note, indexes, ...) is written quoted by the harness: unquoted it is that setting, not a property',
               'duplicate keys are not generated (last-wins is not claimed)',
               'round trip of multi-line values is C02/C13 territory (recorded finding C02-multiline-settings-text); here they are checked for exact storage only']

KEYS = ['k', 'my key', 'K2', 'ref_x', 'table', 'pkey', 'nullable', 'notes', 'indexes_x', 'unique_id',
        # spelled like a setting keyword (written quoted: that is what makes them keys) and non-ASCII words
        'pk', 'note', 'Note', 'default', 'ref', 'unique', 'increment', 'null', 'indexes', 'not null', 'primary key', 'größe', 'ключ', '٣']
VALUES = ['v', "it's", 'a "b"', ' padded ', '', 'multi\nline', 'x: y, [z]']
ORDINARY = [('pk', None), ('not_null', None), ('default', ['int', 1]), ('note', 'cn'), ('ref', None), ('unique', None)]


def bounds(tier):
    return {'bfs_depth': 2 if tier == 'quick' else 3, 'flip_sequence_length': 3, 'properties_per_owner': 2}


def parse(text, on):
    from pydbml import PyDBML
    return PyDBML(text, allow_properties=on)


# ------------------------------------------------------------------------------------------------

def check_same(p, m, order, case):
    import pyparsing
    for st in (writer.Style(), writer.Style(quote='quoted', multiline='trail', note_form='block', idx_pos='first', airy=True)):
        text = writer.write(m, st, order)
        try:
            off = parse(text, False)
        except Exception:
            p['outcomes']['same/unparsable-by-default(C01 domain)'] += 1
            continue
        p['transitions'] += 2
        try:
            on = parse(text, True)
        except Exception as e:
            p['violations'].append(violation(PID, 'option-changes-parse', dict(case, text=text[:600]), observed=exc_info(e),
                                             detail=f'a property-free document that parses by default is rejected with the option on: {type(e).__name__}: {str(e)[:120]}'))
            continue
        p['evaluations'] += 1
        c_on, c_off = canon.canon(on), canon.canon(off)
        if c_on.pop('allow_properties') is not True or c_off.pop('allow_properties') is not False:
            p['violations'].append(violation(PID, 'flag-wrong', dict(case, text=text[:600]), detail=f'allow_properties is {on.allow_properties!r} / {off.allow_properties!r} for option on / off'))
        if not canon.same(c_on, c_off):
            p['violations'].append(violation(PID, 'option-changes-content', dict(case, text=text[:600]), observed=canon.diff(c_on, c_off),
                                             detail='enabling the option changes the parsed content of a property-free document: ' + canon.diff(c_on, c_off)[0]))
        elif on.dbml != off.dbml or on.sql != off.sql:
            p['violations'].append(violation(PID, 'option-changes-rendering', dict(case, text=text[:600]), detail='enabling the option changes .dbml / .sql of a property-free document'))
        else:
            p['outcomes']['same/identical'] += 1


# ------------------------------------------------------------------------------------------------

def col_cases():
    """(ordinary settings subset, properties)"""
    out = []
    ords = [()] + [(o,) for o in ORDINARY] + [(ORDINARY[0], ORDINARY[3]), (ORDINARY[2], ORDINARY[4]), (ORDINARY[1], ORDINARY[5])]
    for o in ords:
        for n in (0, 1, 2):
            if n == 0:
                out.append((o, ()))
                continue
            for keys in itertools.permutations(KEYS, n):
                if n == 2 and keys[0] not in ('k', 'my key'):
                    continue
                for vals in itertools.product(VALUES, repeat=n):
                    if n == 2 and not (vals[0] in ('v', ' padded ') and vals[1] in ("it's", '', 'multi\nline', 'v')):
                        continue
                    out.append((o, tuple(zip(keys, vals))))
    return out


def col_model(cases, base=0):
    cols, refs = [], []
    for k, (ords, props) in enumerate(cases):
        c = A.col(f'c{k}', 'int', properties=[list(x) for x in props])
        for name, val in ords:
            if name == 'pk':
                c['pk'] = True
            elif name == 'not_null':
                c['not_null'] = True
            elif name == 'unique':
                c['unique'] = True
            elif name == 'default':
                c['default'] = val
            elif name == 'note':
                c['note'] = val
            elif name == 'ref':
                refs.append(A.ref('>', [['public', 't', f'c{k}']], [['public', 'x', 'id']], inline=True))
        cols.append(c)
    return A.model(tables=[A.table('t', cols), A.table('x', [A.col('id')])], refs=refs, allow_properties=True)


def tab_cases():
    out = []
    for n in (0, 1, 2):
        keysets = [()] if n == 0 else [k for k in itertools.permutations(KEYS, n) if n == 1 or k[0] in ('k', 'my key')]
        for keys in keysets:
            for vals in itertools.product(VALUES, repeat=n):
                if n == 2 and not (vals[0] in ('v', ' padded ', 'multi\nline') and vals[1] in ("it's", '', 'v')):
                    continue
                for pp, note, nidx in itertools.product(('last', 'first', 'middle', 'split'), ('', 'tn'), (0, 1)):
                    if n == 0 and pp != 'last':
                        continue
                    if n < 2 and pp == 'split':
                        continue
                    out.append((tuple(zip(keys, vals)), pp, note, nidx))
    return out


def tab_model(cases, base=0):
    ts = []
    for k, (props, pp, note, nidx) in enumerate(cases):
        t = A.table(f't{base + k}', [A.col('id', pk=True), A.col('v', 'varchar', properties=[['colp', 'x']] if k % 3 == 0 else None)],
                    note=note, properties=[list(x) for x in props], indexes=[A.index(['id', 'v'])] if nidx else [])
        t['prop_pos'] = pp
        ts.append(t)
    return A.model(tables=ts, allow_properties=True)


STORE_STYLES = [writer.Style(), writer.Style(order=-1, quote='quoted', string='d'), writer.Style(order=1, multiline='trail', note_pos='first', idx_pos='first'),
                writer.Style(order=2, multiline='lead', string='t', note_form='block', note_pos='middle', idx_pos='middle', airy=True),
                writer.Style(order=0, multiline='trail', case='upper', note_form='colon')]


def has_props(m):
    return any(t['properties'] or any(c['properties'] for c in t['columns']) for t in m['tables'])


def single_line_only(m):
    return all('\n' not in v for t in m['tables'] for _, v in t['properties']) and \
        all('\n' not in v for t in m['tables'] for c in t['columns'] for _, v in c['properties'])


def check_store(p, kind, cases, base, mk):
    import pyparsing
    m = mk(cases, base)
    exp = writer.expected(m)
    for st in STORE_STYLES:
        text = writer.write(m, st)
        case = {'mode': 'store', 'kind': kind, 'cases': [list(map(list, c)) if False else c for c in cases], 'base': base, 'style': style_dict(st)}
        p['transitions'] += 1
        # option on: stored exactly, in order, flag on
        try:
            db = parse(text, True)
        except Exception as e:
            if len(cases) > 1:
                for k, c in enumerate(cases):
                    check_store_single(p, kind, c, base + k, mk, st)
            else:
                p['violations'].append(violation(PID, 'properties-rejected-with-option-on', dict(case, text=text[:500]), observed=exc_info(e),
                                                 detail=f'{type(e).__name__}: {str(e)[:150]} | {text[:200]!r}'))
            continue
        p['evaluations'] += 1
        got = canon.canon(db)
        if not canon.same(got, exp):
            if len(cases) > 1:
                for k, c in enumerate(cases):
                    check_store_single(p, kind, c, base + k, mk, st)
            else:
                p['violations'].append(violation(PID, 'properties-not-stored-exactly', dict(case, text=text[:500]), observed=canon.diff(got, exp),
                                                 detail=canon.diff(got, exp)[0]))
            continue
        p['outcomes'][f'store/{kind}/exact'] += 1
        # option off: the same syntax is a syntax error (only meaningful if the document has any property)
        if has_props(m):
            try:
                parse(text, False)
                p['violations'].append(violation(PID, 'properties-accepted-with-option-off', dict(case, text=text[:500]),
                                                 detail='a document with arbitrary properties parses although the option is off'))
            except pyparsing.ParseBaseException:
                p['outcomes'][f'store/{kind}/rejected-when-off'] += 1
            except Exception as e:
                p['violations'].append(violation(PID, 'properties-wrong-error-with-option-off', dict(case, text=text[:500]), observed=exc_info(e),
                                                 detail=f'option off: raised {type(e).__name__}, expected a syntax error'))
        # rendered back so that they round-trip (single-line values; multi-line values: C02/C13 recorded finding - those entries are
        # taken out of the pack for this clause, the rest of the pack is still round-tripped)
        db_rt, exp_rt = db, exp
        if not single_line_only(m):
            m_rt = A.clone(m)
            for t in m_rt['tables']:
                t['properties'] = [kv for kv in t['properties'] if '\n' not in kv[1]]
                for c in t['columns']:
                    c['properties'] = [kv for kv in c['properties'] if '\n' not in kv[1]]
            try:
                db_rt, exp_rt = parse(writer.write(m_rt, st), True), writer.expected(m_rt)
            except Exception:
                db_rt = None
        if db_rt is not None:
            exp = exp_rt
            try:
                t1 = db_rt.dbml
                back = parse(t1, True)
                g2 = canon.strip_comments(canon.canon(back))
                if not canon.same(canon.partition_refs(g2), canon.partition_refs(canon.strip_comments(exp))):
                    d = canon.diff(canon.partition_refs(g2), canon.partition_refs(canon.strip_comments(exp)))
                    p['violations'].append(violation(PID, 'properties-do-not-round-trip', dict(case, text=text[:500]), observed=d, detail=d[0]))
            except Exception as e:
                p['violations'].append(violation(PID, 'properties-do-not-round-trip', dict(case, text=text[:500]), observed=exc_info(e),
                                                 detail=f'render / re-parse raised {type(e).__name__}: {str(e)[:120]}'))


def check_store_single(p, kind, c, base, mk, st):
    m = mk([c], base)
    exp = writer.expected(m)
    text = writer.write(m, st)
    case = {'mode': 'store', 'kind': kind, 'cases': [c], 'base': base, 'style': style_dict(st)}
    try:
        db = parse(text, True)
    except Exception as e:
        p['violations'].append(violation(PID, 'properties-rejected-with-option-on', dict(case, text=text[:500]), observed=exc_info(e),
                                         detail=f'{type(e).__name__}: {str(e)[:150]} | {text[:200]!r}'))
        return
    got = canon.canon(db)
    if not canon.same(got, exp):
        p['violations'].append(violation(PID, 'properties-not-stored-exactly', dict(case, text=text[:500]), observed=canon.diff(got, exp), detail=canon.diff(got, exp)[0]))


def style_dict(st):
    from .. import styles
    return styles.style_dict(st)


# ------------------------------------------------------------------------------------------------

def flip_model():
    t = A.table('t', [A.col('id', pk=True, properties=[['ck', 'cv'], ['c 2', "it's"]]), A.col('v', 'varchar', note='n')],
                properties=[['tk', 'tv'], ['t 2', ' padded ']], note='tn', indexes=[A.index(['id'])])
    u = A.table('u', [A.col('id')], schema='s', properties=[['uk', '']])
    return A.model(tables=[t, u], refs=[A.ref('>', [['s', 'u', 'id']], [['public', 't', 'id']])], allow_properties=True)


def emptied(m):
    m = A.clone(m)
    for t in m['tables']:
        t['properties'] = []
        for c in t['columns']:
            c['properties'] = []
    return m


def check_flips(p, route, initial, seq):
    m = flip_model()
    case = {'mode': 'flips', 'route': route, 'initial': initial, 'sequence': list(seq)}
    if route == 'api':
        db = builder.build(m, allow_properties=initial)
    elif route in ('api-late', 'parsed-late'):
        # objects created without any property get theirs afterwards, by item assignment on the dict they hold
        if route == 'api-late':
            db = builder.build(emptied(m), allow_properties=initial)
        else:
            db = parse(writer.write(emptied(m)), True)
            db.allow_properties = initial
        try:
            for t in m['tables']:
                tab = db[f"{t['schema']}.{t['name']}"]
                for k, v in t['properties']:
                    tab.properties[k] = v
                for c in t['columns']:
                    for k, v in c['properties']:
                        tab[c['name']].properties[k] = v
        except Exception as e:
            p['violations'].append(violation(PID, 'properties-cannot-be-added', case, observed=exc_info(e),
                                             detail=f'{route}: assigning a property on an object created without any raised {type(e).__name__}: {e}'))
            return
    else:
        db = parse(writer.write(m), True)
        db.allow_properties = initial
    bare_text = builder.build(emptied(m), allow_properties=False).dbml
    for n, flag in enumerate((initial,) + tuple(seq)):
        db.allow_properties = flag
        p['transitions'] += 1
        try:
            text = db.dbml
        except Exception as e:
            p['violations'].append(violation(PID, 'render-raised', dict(case, step=n), observed=exc_info(e), detail=f'{type(e).__name__}: {e}'))
            return
        if not flag:
            if text != bare_text:
                p['violations'].append(violation(PID, 'properties-rendered-with-flag-off', dict(case, step=n), observed=text[:600],
                                                 detail=f'flag off after {[initial] + list(seq[:n])}: .dbml differs from that of the same database without properties'))
                return
        else:
            try:
                back = parse(text, True)
            except Exception as e:
                p['violations'].append(violation(PID, 'flag-on-rendering-unparsable', dict(case, step=n), observed=text[:600], detail=f'{type(e).__name__}: {str(e)[:120]}'))
                return
            got = canon.strip_comments(canon.canon(back))
            exp = canon.strip_comments(writer.expected(m))
            if not canon.same(got, exp):
                d = canon.diff(got, exp)
                p['violations'].append(violation(PID, 'properties-not-rendered-with-flag-on', dict(case, step=n), observed=d,
                                                 detail=f'flag on after {[initial] + list(seq[:n])}: {d[0]}'))
                return
        # the SQL never shows properties and does not depend on the flag
    p['evaluations'] += 1
    p['states'] += 1
    p['traces'] += 1
    p['nontrivial'].add(digest(case))
    p['outcomes']['flips/ok'] += 1


# ------------------------------------------------------------------------------------------------

LAYOUT_DOCS = [
    ("Table t {\n  id int\n  k: 'v' j: 'w'\n}\n", [['k', 'v'], ['j', 'w']]),
    ("Table t {\n  id int\n  k: 'v' }\n", [['k', 'v']]),
    ("Table t {\n  id int\n  k: 'v' /* c */ j: 'w' }\n", [['k', 'v'], ['j', 'w']]),
    ("Table t {\n  k: 'v'\n  id int\n  j: 'w' // trailing\n  x int\n}\n", [['k', 'v'], ['j', 'w']]),
    ("Table t { k: 'v'\n  id int\n}\n", [['k', 'v']]),
    ("Table t {\n  id int\n  \"k 1\": '''v\n1''' j: 'w'\n  Note: 'n'\n}\n", [['k 1', 'v\n1'], ['j', 'w']]),
]


def check_layouts(p):
    import pyparsing
    for text, want in LAYOUT_DOCS:
        case = {'mode': 'layout', 'text': text}
        p['transitions'] += 1
        try:
            db = parse(text, True)
        except Exception as e:
            p['violations'].append(violation(PID, 'properties-rejected-with-option-on', case, observed=exc_info(e), detail=f'{type(e).__name__}: {str(e)[:120]} | {text!r}'))
            continue
        got = [[k, v] for k, v in db.tables[0].properties.items()]
        p['evaluations'] += 1
        p['nontrivial'].add(digest(case))
        if got != want or db.allow_properties is not True:
            p['violations'].append(violation(PID, 'properties-not-stored-exactly', case, expected=want, observed=got, detail=f'{text!r}: stored {got}, expected {want}'))
        try:
            parse(text, False)
            p['violations'].append(violation(PID, 'properties-accepted-with-option-off', case, detail=f'{text!r} parses with the option off'))
        except pyparsing.ParseBaseException:
            p['outcomes']['layout/ok'] += 1


ROUTES = ['PyDBML(str)', 'PyDBML(Path)', 'PyDBML(open file)', 'PyDBML.parse(str)', 'PyDBML().parse(str)']


def parse_via(route, text, on):
    import os
    import pathlib
    import tempfile
    from pydbml import PyDBML
    kw = {} if on is None else {'allow_properties': on}
    if route == 'PyDBML(str)':
        return PyDBML(text, **kw)
    if route == 'PyDBML.parse(str)':
        return PyDBML.parse(text, **kw)
    if route == 'PyDBML().parse(str)':
        return PyDBML().parse(text, **kw)
    fd, path = tempfile.mkstemp(prefix='verif_c15_', suffix='.dbml')
    try:
        with os.fdopen(fd, 'w', encoding='utf8') as f:
            f.write(text)
        if route == 'PyDBML(Path)':
            return PyDBML(pathlib.Path(path), **kw)
        with open(path, encoding='utf8') as f:
            return PyDBML(f, **kw)
    finally:
        os.unlink(path)


def check_routes(p):
    """the option is honoured on every route that takes it: on -> stored + flag on, off / not given -> syntax error; a document without
    properties gives flag == option"""
    import pyparsing
    m = flip_model()
    with_props = writer.write(m)
    exp = writer.expected(m)
    bare = writer.write(emptied(m))
    for route in ROUTES:
        for on in (True, False, None):
            case = {'mode': 'routes', 'route': route, 'option': on}
            p['evaluations'] += 1
            p['transitions'] += 2
            p['nontrivial'].add(digest(case))
            try:
                db = parse_via(route, with_props, on)
                if not on:
                    p['violations'].append(violation(PID, 'properties-accepted-with-option-off', case, detail=f'{route}: a document with properties parses with allow_properties={on}'))
                elif db.allow_properties is not True or not canon.same(canon.canon(db), exp):
                    p['violations'].append(violation(PID, 'properties-not-stored-exactly', case, observed=canon.diff(canon.canon(db), exp),
                                                     detail=f'{route}, option on: ' + (canon.diff(canon.canon(db), exp) or ['flag is off'])[0]))
                else:
                    p['outcomes']['routes/stored'] += 1
            except pyparsing.ParseBaseException as e:
                if on:
                    p['violations'].append(violation(PID, 'properties-rejected-with-option-on', case, observed=exc_info(e),
                                                     detail=f'{route} with allow_properties=True rejects a document with properties: {str(e)[:120]}'))
                else:
                    p['outcomes']['routes/rejected-when-off'] += 1
            try:
                db = parse_via(route, bare, on)
                if db.allow_properties is not bool(on):
                    p['violations'].append(violation(PID, 'flag-wrong', case, observed=db.allow_properties, detail=f'{route} with allow_properties={on}: database flag is {db.allow_properties!r}'))
            except Exception as e:
                p['violations'].append(violation(PID, 'option-changes-parse', case, observed=exc_info(e), detail=f'{route}: property-free document rejected: {type(e).__name__}'))


def units(tier, seed):
    us = [('layouts', None, None), ('routes', None, None)]
    b = bounds(tier)
    for first in c01.DECLS:
        us.append(('same-bfs', first, b['bfs_depth']))
    for prod in ('columns', 'indexes', 'tables', 'enums', 'refs', 'misc'):
        us.append(('same-product', prod, None))
    cc = col_cases()
    for k in range(0, len(cc), 60):
        us.append(('store-col', k, min(len(cc), k + 60)))
    tc = tab_cases()
    for k in range(0, len(tc), 60):
        us.append(('store-tab', k, min(len(tc), k + 60)))
    us.append(('flips', None, None))
    return us


def work(unit):
    mode, a, b = unit
    p = new_part()
    if mode == 'layouts':
        check_layouts(p)
        p['samples'].append({'mode': 'layout', 'text': LAYOUT_DOCS[0][0]})
    elif mode == 'routes':
        check_routes(p)
        p['samples'].append({'mode': 'routes', 'routes': ROUTES})
    elif mode == 'same-bfs':
        frontier = [(a,)]
        while frontier:
            nxt = []
            for seq in frontier:
                m, order, ok = c01.state_model(seq)
                if ok:
                    check_same(p, m, order, {'mode': 'same', 'seq': list(seq)})
                    p['states'] += 1
                    p['traces'] += 1
                    p['nontrivial'].add(digest(['same', seq]))
                if len(seq) < b:
                    for name in c01.enabled(seq):
                        nxt.append(seq + (name,))
            frontier = nxt
        p['samples'].append({'mode': 'same', 'state': list(seq)})
    elif mode == 'same-product':
        gen, mk, dims, n = c01.PRODUCTS[a]
        elems = gen('quick')
        packs = c01.pack_misc(elems, n) if a == 'misc' else [elems[k:k + n] for k in range(0, len(elems), n)]
        step = max(1, len(packs) // 12)
        base = 0
        for k, pk in enumerate(packs):
            if k % step == 0:
                m = mk(pk, base)
                if not has_props(m):
                    m['allow_properties'] = False
                    check_same(p, m, None, {'mode': 'same-product', 'product': a, 'pack': k})
                    p['states'] += 1
                    p['nontrivial'].add(digest(['same-product', a, k]))
            base += len(pk)
        p['samples'].append({'mode': 'same-product', 'product': a})
    elif mode == 'store-col':
        cc = col_cases()[a:b]
        for k in range(0, len(cc), 12):
            check_store(p, 'column', cc[k:k + 12], a + k, col_model)
            for c in cc[k:k + 12]:
                p['nontrivial'].add(digest(['col', c]))
            p['states'] += 1
        p['samples'].append({'mode': 'store', 'column_case': cc[0]})
    elif mode == 'store-tab':
        tc = tab_cases()[a:b]
        for k in range(0, len(tc), 10):
            check_store(p, 'table', tc[k:k + 10], a + k, tab_model)
            for c in tc[k:k + 10]:
                p['nontrivial'].add(digest(['tab', c]))
            p['states'] += 1
        p['samples'].append({'mode': 'store', 'table_case': tc[0]})
    else:
        for route in ('api', 'parsed', 'api-late', 'parsed-late'):
            for initial in (False, True):
                for d in range(0, 4):
                    for seq in itertools.product((False, True), repeat=d):
                        check_flips(p, route, initial, seq)
        p['samples'].append({'mode': 'flips', 'sequence': [True, False, True]})
    return p


def replay(case):
    p = new_part()
    mode = case['mode']
    if mode == 'layout':
        check_layouts(p)
        return [v for v in p['violations'] if v['case'].get('text') == case.get('text')]
    if mode == 'routes':
        check_routes(p)
        return [v for v in p['violations'] if v['case'] == case]
    if mode == 'same':
        m, order, ok = c01.state_model(tuple(case['seq']))
        check_same(p, m, order, {'mode': 'same', 'seq': case['seq']})
    elif mode == 'same-product':
        gen, mk, dims, n = c01.PRODUCTS[case['product']]
        elems = gen('quick')
        packs = c01.pack_misc(elems, n) if case['product'] == 'misc' else [elems[k:k + n] for k in range(0, len(elems), n)]
        base = sum(len(x) for x in packs[:case['pack']])
        m = mk(packs[case['pack']], base)
        m['allow_properties'] = False
        check_same(p, m, None, case)
    elif mode == 'store':
        from .. import styles
        cases = [tuple(tuple(x) if isinstance(x, list) else x for x in c) for c in case['cases']]
        cases = [_retuple(c) for c in case['cases']]
        mk = col_model if case['kind'] == 'column' else tab_model
        for c in cases:
            check_store_single(p, case['kind'], c, case['base'], mk, styles.from_dict(case['style']))
        if not p['violations']:
            check_store(p, case['kind'], cases, case['base'], mk)
    else:
        check_flips(p, case['route'], case['initial'], tuple(case['sequence']))
    return p['violations']


def _retuple(x):
    if isinstance(x, list):
        return tuple(_retuple(i) for i in x)
    return x
