"""C16 — element and database renderings agree and use the configured renderers.

  routing  configuration product {default, full custom, partial custom (Table only), empty custom} for SQL x the same for DBML,
           configured through Database(...), PyDBML(src, ...), PyDBML.parse(src, ...) and a PyDBML() instance; custom renderers tag
           their output, so which class produced a text is observable.  Add / delete / re-add histories (depth <= 3) per element:
           attached => the configured classes ('' for an unhandled type), detached or never attached => the default renderers.
  once     with the default renderers, on every well-formed state of the C01 derivation BFS (API-built), the text of each table,
           enum, non-inline reference, group, sticky note and the project occurs exactly once in the database text, at an
           element boundary.
  purity   all evaluation sequences up to the bound over the render calls of a database that has every element kind (incl. a <>
           reference, whose SQL builds a join table): after every call the public model (content, order, object identity of every
           container slot, back-pointers) is unchanged and every call returns what it returned the first time.
"""
from __future__ import annotations

import itertools

from .. import asm as A
from .. import builder, canon, writer
from ..runner import new_part, violation, digest, exc_info
from . import c01, c10

PID = 'C16'
LEVEL = 'model_checking'
RULE = ('renderer configuration product x configuration routes x attach/detach histories; exactly-once containment on every well-formed '
        'C01 BFS state; all render-call sequences up to the bound with a model snapshot after every call; states = histories / sequences '
        'executed, transitions = operations or render calls; distinct_nontrivial = distinct (configuration, route, history) / states / sequences')
ASSUMPTIONS = ['custom renderer classes are BaseRenderer subclasses with their own model_renderers dict (the documented extension point)',
               'the model compared by the purity clause is the public one: content, order, identity of the objects in every container slot and '
               'back-pointers; private attributes that appear during rendering are not part of it']


def bounds(tier):
    return {'history_depth': 3, 'purity_sequence_length': 3 if tier == 'quick' else 4, 'once_bfs_depth': 3 if tier == 'quick' else 4}


# ------------------------------------------------------------------------------------------------
# custom renderers

def make_renderer(tag, handles):
    """A BaseRenderer subclass whose handlers return '<tag Class name>'.  handles: 'all' | 'table' | 'none'."""
    from pydbml.renderer.base import BaseRenderer
    from pydbml.classes import (Column, Enum, EnumItem, Expression, Index, Note, Project, Reference, StickyNote, Table, TableGroup)

    class R(BaseRenderer):
        model_renderers = {}

        @classmethod
        def render_db(cls, db):
            return f'<{tag} DB ' + '|'.join(cls.render(t) for t in db.tables) + '>'
    R.__name__ = f'R_{tag}_{handles}'
    classes = {'all': (Column, Enum, EnumItem, Expression, Index, Note, Project, Reference, StickyNote, Table, TableGroup),
               'table': (Table,), 'none': ()}[handles]
    for c in classes:
        def h(model, c=c):
            return f'<{tag} {c.__name__} {getattr(model, "name", "")}>'
        R.renderer_for(c)(h)
    R.handled = set(classes)
    R.tag = tag
    return R


CONFIGS = ['default', 'all', 'table', 'none']
ROUTES = ['Database()', 'PyDBML(src)', 'PyDBML.parse', 'PyDBML().parse', 'PyDBML(Path)', 'PyDBML(open file)']


def routing_model():
    m = c10.start_model()
    return m


def build_configured(route, sqlc, dbmlc):
    from pydbml import PyDBML, Database
    kw = {}
    if sqlc != 'default':
        kw['sql_renderer'] = make_renderer('SQLX', sqlc)
    if dbmlc != 'default':
        kw['dbml_renderer'] = make_renderer('DBMLX', dbmlc)
    m = routing_model()
    if route == 'Database()':
        db = builder.build(m, **kw)
    else:
        text = writer.write(m)
        if route == 'PyDBML(src)':
            db = PyDBML(text, **kw)
        elif route == 'PyDBML.parse':
            db = PyDBML.parse(text, **kw)
        elif route in ('PyDBML(Path)', 'PyDBML(open file)'):
            import os
            import pathlib
            import tempfile
            fd, path = tempfile.mkstemp(prefix='verif_c16_', suffix='.dbml')
            try:
                with os.fdopen(fd, 'w', encoding='utf8') as f:
                    f.write(text)
                if route == 'PyDBML(Path)':
                    db = PyDBML(pathlib.Path(path), **kw)
                else:
                    with open(path, encoding='utf8') as f:
                        db = PyDBML(f, **kw)
            finally:
                os.unlink(path)
        else:
            db = PyDBML().parse(text, **kw)
    return db, kw


def expected_text(el, which, attached, kw):
    """which: 'sql' | 'dbml'.  -> expected text, or None when not asserted"""
    from pydbml.renderer.sql.default import DefaultSQLRenderer
    from pydbml.renderer.dbml.default import DefaultDBMLRenderer
    R = kw.get(f'{which}_renderer') if attached else None
    if R is None:
        D = DefaultSQLRenderer if which == 'sql' else DefaultDBMLRenderer
        try:
            return D.render(el)
        except Exception as e:
            return f'<raises {type(e).__name__}>'
    if type(el) in R.handled:
        return f'<{R.tag} {type(el).__name__} {getattr(el, "name", "")}>'
    return ''


def observed_text(el, which):
    try:
        return getattr(el, which)
    except Exception as e:
        return f'<raises {type(e).__name__}>'


def elements(db):
    out = [('table0', db.tables[0]), ('table2', db.tables[2]), ('enum0', db.enums[0]), ('ref1', db.refs[1]), ('ref2', db.refs[2]),
           ('group0', db.table_groups[0]), ('sticky0', db.sticky_notes[0]), ('project', db.project)]
    return out


def check_routing(p, route, sqlc, dbmlc, hist_len):
    from pydbml.renderer.sql.default import DefaultSQLRenderer
    from pydbml.renderer.dbml.default import DefaultDBMLRenderer
    case0 = {'mode': 'routing', 'route': route, 'sql': sqlc, 'dbml': dbmlc}
    try:
        db, kw = build_configured(route, sqlc, dbmlc)
    except Exception as e:
        p['violations'].append(violation(PID, 'configuration-refused', case0, observed=exc_info(e), detail=f'{route} with renderers ({sqlc},{dbmlc}) raised {type(e).__name__}: {e}'))
        return
    # database-level text
    for which, D in (('sql', DefaultSQLRenderer), ('dbml', DefaultDBMLRenderer)):
        R = kw.get(f'{which}_renderer')
        got = observed_text(db, which)
        if R is not None:
            if not got.startswith(f'<{R.tag} DB '):
                p['violations'].append(violation(PID, 'db-text-not-from-configured-renderer', dict(case0, what=which), observed=got[:200],
                                                 detail=f'db.{which} was not produced by the configured {which} renderer'))
        else:
            if got != D.render_db(db):
                p['violations'].append(violation(PID, 'db-text-not-from-default-renderer', dict(case0, what=which), observed=got[:200], detail=f'db.{which} differs from the default renderer\'s text'))
        if getattr(db, f'{which}_renderer') is not (R or D):
            p['violations'].append(violation(PID, 'renderer-not-configured', dict(case0, what=which), observed=repr(getattr(db, f'{which}_renderer')),
                                             detail=f'database.{which}_renderer is not the class that was passed'))
    els = elements(db)
    # every attached top-level element and every column
    cols = [(f'{k}.col{j}', c) for k, t in els if k.startswith('table') for j, c in enumerate(t.columns)]

    def verify(label, el, attached, hist):
        for which in ('sql', 'dbml'):
            if which == 'sql' and not hasattr(type(el), 'sql'):
                continue
            exp = expected_text(el, which, attached, kw)
            got = observed_text(el, which)
            p['evaluations'] += 1
            if got != exp:
                p['violations'].append(violation(PID, 'element-rendered-by-wrong-renderer', dict(case0, element=label, history=hist, what=which),
                                                 expected=exp[:200], observed=got[:200],
                                                 detail=f'{label}.{which} after {hist} ({"attached" if attached else "detached"}): {got[:80]!r}, expected {exp[:80]!r}'))
                return False
        return True
    for label, el in els + cols:
        verify(label, el, True, [])
    # add / delete / re-add histories per top-level element (a fresh database per history)
    for k in range(len(els)):
        for hist in itertools.product(('delete', 'add'), repeat=hist_len):
            db2, kw2 = build_configured(route, sqlc, dbmlc)
            kw.update(kw2)          # (fresh renderer classes per database: compare against this database's own)
            label, el = elements(db2)[k]
            attached = True
            ok = True
            done = []
            for op in hist:
                if (op == 'delete') != attached:
                    ok = False
                    break
                try:
                    (db2.delete if op == 'delete' else db2.add)(el)
                except Exception as e:
                    p['outcomes'][f'routing/{label}/{op}-refused:{type(e).__name__}'] += 1
                    ok = False
                    break
                attached = not attached
                done.append(op)
                p['transitions'] += 1
                kwv = kw2
                for which in ('sql', 'dbml'):
                    if which == 'sql' and not hasattr(type(el), 'sql'):
                        continue
                    exp = expected_text(el, which, attached, kwv)
                    got = observed_text(el, which)
                    p['evaluations'] += 1
                    if got != exp:
                        p['violations'].append(violation(PID, 'element-rendered-by-wrong-renderer', dict(case0, element=label, history=list(done), what=which),
                                                         expected=exp[:200], observed=got[:200],
                                                         detail=f'{label}.{which} after {done} ({"attached" if attached else "detached"}): {got[:80]!r}, expected {exp[:80]!r}'))
                if label.startswith('table'):
                    for j, c in enumerate(el.columns):
                        for which in ('sql', 'dbml'):
                            exp = expected_text(c, which, attached, kwv)
                            got = observed_text(c, which)
                            if got != exp:
                                p['violations'].append(violation(PID, 'element-rendered-by-wrong-renderer', dict(case0, element=f'{label}.col{j}', history=list(done), what=which),
                                                                 expected=exp[:200], observed=got[:200], detail=f'{label}.col{j}.{which} after {done}: {got[:80]!r}, expected {exp[:80]!r}'))
            if ok:
                p['states'] += 1
                p['traces'] += 1
                p['nontrivial'].add(digest([case0, label, hist]))
    # delete through an equal but different object that lives in a second, identically configured database: whichever object
    # left its database uses the default renderers afterwards, whichever is still contained uses its database's renderers
    for k in range(len(els)):
        dba, kwa = build_configured(route, sqlc, dbmlc)
        dbb, kwb = build_configured(route, sqlc, dbmlc)
        label, own = elements(dba)[k]
        _, twin = elements(dbb)[k]
        try:
            dba.delete(twin)
            outcome = 'removed'
        except Exception as e:
            outcome = 'refused'
        p['transitions'] += 1
        p['outcomes'][f'routing/delete-via-twin/{outcome}'] += 1
        own_in = any(x is own for x in (dba.tables + dba.refs + dba.enums + dba.table_groups + dba.sticky_notes + [dba.project]))
        twin_in = any(x is twin for x in (dbb.tables + dbb.refs + dbb.enums + dbb.table_groups + dbb.sticky_notes + [dbb.project]))
        for lab, el, inside, kwx in ((label, own, own_in, kwa), (label + '(twin)', twin, twin_in, kwb)):
            for which in ('sql', 'dbml'):
                if which == 'sql' and not hasattr(type(el), 'sql'):
                    continue
                exp = expected_text(el, which, inside, kwx)
                got = observed_text(el, which)
                p['evaluations'] += 1
                if got != exp:
                    p['violations'].append(violation(PID, 'element-rendered-by-wrong-renderer', dict(case0, element=lab, history=['delete-via-twin:' + outcome], what=which),
                                                     expected=exp[:200], observed=got[:200],
                                                     detail=f'{lab}.{which} after deleting through an equal object of another database ({outcome}; this object is '
                                                            f'{"still contained" if inside else "not contained"}): {got[:80]!r}, expected {exp[:80]!r}'))
    p['outcomes'][f'routing/{route}/checked'] += 1


def check_routing_no_tables(p, sqlc, dbmlc):
    """a configured database that holds an enum, a project and a sticky note but no table"""
    from pydbml import Database
    from pydbml.classes import Enum, Project, StickyNote
    kw = {}
    if sqlc != 'default':
        kw['sql_renderer'] = make_renderer('SQLX', sqlc)
    if dbmlc != 'default':
        kw['dbml_renderer'] = make_renderer('DBMLX', dbmlc)
    db = Database(**kw)
    els = [('enum', Enum('e', ['x'])), ('project', Project('p')), ('sticky', StickyNote('n', 'x'))]
    for _, el in els:
        db.add(el)
    case0 = {'mode': 'routing-no-tables', 'sql': sqlc, 'dbml': dbmlc}
    for label, el in els:
        for which in ('sql', 'dbml'):
            if which == 'sql' and not hasattr(type(el), 'sql'):
                continue
            exp = expected_text(el, which, True, kw)
            got = observed_text(el, which)
            p['evaluations'] += 1
            if got != exp:
                p['violations'].append(violation(PID, 'element-rendered-by-wrong-renderer', dict(case0, element=label, what=which), expected=exp[:200], observed=got[:200],
                                                 detail=f'{label}.{which} in a database without tables: {got[:80]!r}, expected {exp[:80]!r}'))
    p['outcomes']['routing/no-tables/checked'] += 1


def never_attached(p):
    """objects that were never in any database use the default renderers"""
    from pydbml.classes import Column, Enum, Table, Project, StickyNote, TableGroup, Reference
    from pydbml.renderer.sql.default import DefaultSQLRenderer
    from pydbml.renderer.dbml.default import DefaultDBMLRenderer
    t = Table('t')
    c = Column('c', 'int')
    t.add_column(c)
    u = Table('u')
    d = Column('d', 'int')
    u.add_column(d)
    objs = [('table', t), ('column', c), ('enum', Enum('e', ['x'])), ('project', Project('p')), ('sticky', StickyNote('n', 'x')),
            ('group', TableGroup('g', [t])), ('ref', Reference('>', c, d))]
    for label, o in objs:
        for which, D in (('sql', DefaultSQLRenderer), ('dbml', DefaultDBMLRenderer)):
            if which == 'sql' and not hasattr(type(o), 'sql'):
                continue
            try:
                exp = D.render(o)
            except Exception as e:
                exp = f'<raises {type(e).__name__}>'
            got = observed_text(o, which)
            p['evaluations'] += 1
            if got != exp:
                p['violations'].append(violation(PID, 'detached-not-default', {'mode': 'never-attached', 'element': label, 'what': which}, expected=exp[:200], observed=got[:200],
                                                 detail=f'never attached {label}.{which}: {got[:80]!r} expected {exp[:80]!r}'))


# ------------------------------------------------------------------------------------------------
# exactly once

def occurrences_at_boundary(text, part):
    """-> (count, all at element boundary)"""
    n, pos, ok = 0, 0, True
    while True:
        i = text.find(part, pos)
        if i < 0:
            break
        n += 1
        before_ok = i == 0 or text[max(0, i - 2):i] == '\n\n'
        j = i + len(part)
        after_ok = j == len(text) or text[j:j + 2] == '\n\n'
        ok = ok and before_ok and after_ok
        pos = i + 1
    return n, ok


def check_once(p, m, case, delete_first_table=False):
    try:
        db = builder.build(writer.expected(m))
        if delete_first_table:
            # the references that name the deleted table stay in the database and must still appear exactly once
            db.delete(db.tables[0])
    except Exception as e:
        p['outcomes']['once/not-buildable(skipped)'] += 1
        return
    try:
        sql, dbml = db.sql, db.dbml
    except Exception as e:
        p['violations'].append(violation(PID, 'render-raised', case, observed=exc_info(e), detail=f'{type(e).__name__}: {e}'))
        return
    parts = []
    for i, t in enumerate(db.tables):
        parts += [(f'tables[{i}].sql', t.sql, sql), (f'tables[{i}].dbml', t.dbml, dbml)]
    for i, e in enumerate(db.enums):
        parts += [(f'enums[{i}].sql', e.sql, sql), (f'enums[{i}].dbml', e.dbml, dbml)]
    for i, r in enumerate(db.refs):
        if not r.inline:
            parts += [(f'refs[{i}].sql', r.sql, sql), (f'refs[{i}].dbml', r.dbml, dbml)]
    for i, g in enumerate(db.table_groups):
        parts.append((f'table_groups[{i}].dbml', g.dbml, dbml))
    for i, n in enumerate(db.sticky_notes):
        parts.append((f'sticky_notes[{i}].dbml', n.dbml, dbml))
    if db.project is not None:
        parts.append(('project.dbml', db.project.dbml, dbml))
    p['evaluations'] += 1
    texts = [x[1] for x in parts]
    for label, part, whole in parts:
        if not part:
            p['violations'].append(violation(PID, 'element-text-empty', dict(case, element=label), detail=f'{label} is empty'))
            continue
        if sum(1 for t in texts if t == part) > 1:
            continue        # two elements with identical text cannot be told apart: the clause is about distinct texts
        n, ok = occurrences_at_boundary(whole, part)
        if n != 1 or not ok:
            p['violations'].append(violation(PID, 'element-text-not-exactly-once', dict(case, element=label), expected=1, observed=n,
                                             detail=f'{label} occurs {n} times in the database text' + ('' if ok else ' (not at an element boundary)') + f': {part[:80]!r}'))
    p['outcomes']['once/checked'] += 1


DEGENERATE = {
    'sticky-empty-text': lambda m: m['notes'][0].__setitem__('text', ''),
    'second-sticky-empty': lambda m: m['notes'].append({'name': 'n2', 'text': ''}),
    'project-bare': lambda m: m['project'].update(items=[], note=''),
    'group-no-items': lambda m: m['groups'][0].update(items=[]),
    'group-bare': lambda m: m['groups'][0].update(note='', color=None),
    'group-second-empty': lambda m: m['groups'].append({'name': 'g2', 'items': [], 'note': '', 'color': None, 'comment': None}),
    'enum-one-item-bare': lambda m: m['enums'][1].update(items=[{'name': 'z', 'note': '', 'comment': None}]),
    'table-notes-empty': lambda m: [t.update(note='') for t in m['tables']],
    'table-one-column': lambda m: (m['tables'][2].update(columns=m['tables'][2]['columns'][:1]),
                                   m.__setitem__('refs', [r for r in m['refs'] if not any(c[1] == 'c' and c[2] != 'id' for c in r['col1'] + r['col2'])])),
    'no-project': lambda m: m.__setitem__('project', None),
    'no-enum-use': lambda m: m['tables'][0]['columns'][2].update(type=['str', 'int'], default=['none']),
    'refs-all-standalone': lambda m: [r.update(inline=False) for r in m['refs']],
    'comments-everywhere': lambda m: ([t.update(comment='about ' + t['name']) for t in m['tables']], [e.update(comment='about ' + e['name']) for e in m['enums']],
                                       [r.update(comment='about ref') for r in m['refs'] if not r['inline']], m['groups'][0].update(comment='about g'),
                                       m['project'].update(comment='about p')),
}


def degenerate_model(names):
    m = c10.start_model()
    for n in names:
        try:
            DEGENERATE[n](m)
        except Exception:
            return None
    return m


# ------------------------------------------------------------------------------------------------
# purity

PUBLIC = {
    'Database': ('tables', 'refs', 'enums', 'table_groups', 'sticky_notes', 'project', 'allow_properties', 'sql_renderer', 'dbml_renderer'),
    'Table': ('database', 'name', 'schema', 'columns', 'indexes', 'alias', 'note', 'header_color', 'comment', 'abstract', 'properties'),
    'Column': ('name', 'type', 'unique', 'not_null', 'pk', 'autoinc', 'comment', 'note', 'properties', 'default', 'table'),
    'Index': ('subjects', 'table', 'name', 'unique', 'type', 'pk', 'note', 'comment'),
    'Reference': ('database', 'type', 'col1', 'col2', 'name', 'comment', 'on_update', 'on_delete', 'inline'),
    'Enum': ('database', 'name', 'schema', 'comment', 'items'),
    'EnumItem': ('name', 'note', 'comment'),
    'TableGroup': ('database', 'name', 'items', 'comment', 'note', 'color'),
    'Project': ('database', 'name', 'items', 'note', 'comment'),
    'Note': ('text', 'parent'),
    'StickyNote': ('name', 'text', 'database'),
    'Expression': ('text',),
}


def snapshot(db):
    """Public model with object identity: every object gets a number in discovery order; values that are model objects are
    recorded by number, so a replaced / reordered / duplicated object shows even if its content is equal."""
    ids = {}
    out = []

    def num(o):
        if id(o) not in ids:
            ids[id(o)] = len(ids)
            walk(o)
        return ids[id(o)]

    def val(v):
        cn = type(v).__name__
        if cn in PUBLIC:
            return ['@', num(v)]
        if isinstance(v, (list, tuple)):
            return [val(x) for x in v]
        if isinstance(v, dict):
            return [[k, val(x)] for k, x in v.items()]
        if isinstance(v, type):
            return ['class', v.__name__]
        if isinstance(v, (str, int, float, bool, type(None))):
            return [type(v).__name__, v]
        return ['other', repr(v)]

    def walk(o):
        cn = type(o).__name__
        rec = [ids[id(o)], cn]
        slot = len(out)
        out.append(rec)
        for a in PUBLIC[cn]:
            try:
                rec.append([a, val(getattr(o, a))])
            except Exception as e:
                rec.append([a, ['raises', type(e).__name__]])
    num(db)
    return canon.key(out)


def purity_db(route):
    m = c10.start_model()
    m['tables'][0]['columns'][1]['comment'] = 'a comment'
    if route == 'api-inline-composite':
        # only expressible through the API: DBML cannot write it inline (DBMLError, every time), SQL can
        m['refs'][1]['inline'] = True
        return builder.build(m)
    if route == 'api':
        return builder.build(m)
    from pydbml import PyDBML
    return PyDBML(writer.write(m))


def render_calls(db):
    t = db.tables[0]
    return [('db.sql', lambda: db.sql), ('db.dbml', lambda: db.dbml),
            ('table.sql', lambda: t.sql), ('table.dbml', lambda: t.dbml),
            ('table1.sql', lambda: db.tables[1].sql),
            ('column.sql', lambda: t.columns[2].sql), ('column.dbml', lambda: db.tables[1].columns[1].dbml),
            ('index.sql', lambda: t.indexes[0].sql), ('index.dbml', lambda: t.indexes[1].dbml),
            ('enum.sql', lambda: db.enums[0].sql), ('enum.dbml', lambda: db.enums[0].dbml),
            ('ref_inline.sql', lambda: db.refs[0].sql), ('ref_inline.dbml', lambda: db.refs[0].dbml),
            ('ref.sql', lambda: db.refs[1].sql), ('ref.dbml', lambda: db.refs[1].dbml),
            ('m2m.sql', lambda: db.refs[2].sql), ('m2m.dbml', lambda: db.refs[2].dbml), ('m2m.join_table', lambda: db.refs[2].join_table.sql),
            ('group.dbml', lambda: db.table_groups[0].dbml), ('project.dbml', lambda: db.project.dbml),
            ('sticky.dbml', lambda: db.sticky_notes[0].dbml), ('note.sql', lambda: t.note.sql), ('note.dbml', lambda: t.note.dbml)]


CALL_NAMES = [c[0] for c in render_calls(purity_db('api'))] if False else None


def check_sequence(p, route, seq, first_results):
    db = purity_db(route)
    calls = render_calls(db)
    snap0 = snapshot(db)
    names = [calls[k][0] for k in seq]
    case = {'mode': 'purity', 'route': route, 'sequence': names, 'calls': list(seq)}
    for n, k in enumerate(seq):
        name, fn = calls[k]
        try:
            res = fn()
        except Exception as e:
            res = f'<raises {type(e).__name__}: {e}>'
        p['transitions'] += 1
        want = first_results.setdefault((route, k), res)
        if res != want:
            p['violations'].append(violation(PID, 'rendering-depends-on-earlier-renderings', dict(case, step=n), expected=str(want)[:300], observed=str(res)[:300],
                                             detail=f'{name} after {names[:n]} returns a different text than when evaluated first'))
            return
        s = snapshot(db)
        if s != snap0:
            p['violations'].append(violation(PID, 'rendering-changed-the-model', dict(case, step=n), detail=f'{name} (after {names[:n]}) changed the public model: '
                                             + first_diff(snap0, s)))
            return
    p['states'] += 1
    p['traces'] += 1
    p['evaluations'] += 1
    p['nontrivial'].add(digest(case))


def first_diff(a, b):
    import json
    x, y = json.loads(a), json.loads(b)
    for ra, rb in zip(x, y):
        if ra != rb:
            for fa, fb in zip(ra[2:], rb[2:]):
                if fa != fb:
                    return f'{ra[1]}#{ra[0]}.{fa[0]}: {str(fa[1])[:120]} -> {str(fb[1])[:120]}'
            return f'{ra[:2]} -> {rb[:2]}'
    return f'{len(x)} objects -> {len(y)} objects'


# ------------------------------------------------------------------------------------------------

def units(tier, seed):
    us = []
    for route in ROUTES:
        for sqlc in CONFIGS:
            us.append(('routing', route, sqlc))
    us.append(('never', None, None))
    b = bounds(tier)
    for first in c01.DECLS:
        us.append(('once', first, b['once_bfs_depth']))
    us.append(('once-degenerate', None, 2 if tier == 'quick' else 3))
    ncalls = len(render_calls(purity_db('api')))
    for route in ('api', 'parsed'):
        for first in range(ncalls):
            us.append(('purity', route, (first, b['purity_sequence_length'])))
    for first in range(ncalls):
        us.append(('purity', 'api-inline-composite', (first, 2)))
    return us


def work(unit):
    mode, a, b = unit
    p = new_part()
    if mode == 'routing':
        for dbmlc in CONFIGS:
            check_routing(p, a, b, dbmlc, 3)
            if a == ROUTES[0]:
                check_routing_no_tables(p, b, dbmlc)
        p['samples'].append({'mode': 'routing', 'route': a, 'sql_renderer': b, 'dbml_renderers': CONFIGS})
    elif mode == 'never':
        never_attached(p)
        p['samples'].append({'mode': 'never-attached'})
    elif mode == 'once-degenerate':
        names = sorted(DEGENERATE)
        for d in range(0, b + 1):
            for combo in itertools.combinations(names, d):
                m = degenerate_model(combo)
                if m is None:
                    continue
                check_once(p, m, {'mode': 'once-degenerate', 'tweaks': list(combo)})
                p['states'] += 1
                p['traces'] += 1
                p['nontrivial'].add(digest(['once-degenerate', combo]))
        p['samples'].append({'mode': 'once-degenerate', 'tweaks': list(combo)})
    elif mode == 'once':
        frontier = [(a,)]
        while frontier:
            nxt = []
            for seq in frontier:
                m, order, ok = c01.state_model(seq)
                if ok:
                    check_once(p, m, {'mode': 'once', 'seq': list(seq)})
                    if len(m['tables']) >= 2 and m['refs']:
                        check_once(p, m, {'mode': 'once', 'seq': list(seq), 'after': 'delete(tables[0])'}, delete_first_table=True)
                    p['states'] += 1
                    p['traces'] += 1
                    p['nontrivial'].add(digest(['once', seq]))
                if len(seq) < b:
                    for name in c01.enabled(seq):
                        nxt.append(seq + (name,))
                        p['transitions'] += 1
            frontier = nxt
        p['samples'].append({'mode': 'once', 'state': list(seq)})
    else:
        route = a
        first, length = b
        ncalls = len(render_calls(purity_db('api')))
        firsts = {}
        # what each call returns when it is the first thing evaluated on a fresh database
        for k in range(ncalls):
            check_sequence(p, route, (k,), firsts)
        for d in range(2, length + 1):
            for rest in itertools.product(range(ncalls), repeat=d - 1):
                check_sequence(p, route, (first,) + rest, firsts)
        p['samples'].append({'mode': 'purity', 'route': route, 'sequence_first': render_calls(purity_db('api'))[first][0], 'length': length})
    return p


def replay(case):
    p = new_part()
    if case['mode'] == 'routing':
        check_routing(p, case['route'], case['sql'], case['dbml'], 3)
    elif case['mode'] == 'never-attached':
        never_attached(p)
    elif case['mode'] == 'once':
        m, order, ok = c01.state_model(tuple(case['seq']))
        check_once(p, m, {k: v for k, v in case.items() if k in ('mode', 'seq', 'after')}, delete_first_table='after' in case)
    elif case['mode'] == 'once-degenerate':
        check_once(p, degenerate_model(case['tweaks']), {k: v for k, v in case.items() if k in ('mode', 'tweaks')})
    else:
        firsts = {}
        ncalls = len(render_calls(purity_db('api')))
        for k in range(ncalls):
            check_sequence(p, case['route'], (k,), firsts)
        check_sequence(p, case['route'], tuple(case['calls']), firsts)
    return p['violations']
