"""C17 — inconsistent models are refused at render time, not rendered as bogus output.

Explicit-state exploration of guard reachability on real objects:
  attrs  histories over {set a required attribute to None, restore it, detach / re-attach the table, the index, the enum}
         from a small database; after every step `.sql` of every element and of every container up to db.sql is evaluated and
         must raise AttributeMissingError exactly while one of the attributes the statement names is unset in what it renders
  refs   every reference over columns of two attached tables and one unattached column (sides of length 1-2, four kinds,
         inline or not), classified by a reference model as consistent / detached / mixed / composite-inline, with the
         exception class predicted for `.sql`, `.dbml`, `.table1`, `.table2`; plus histories that make a consistent reference
         inconsistent *after* it was looked at (move or detach a column) and consistent again
  getrefs histories {attach, delete, re-attach} of a table; get_refs() of the table and of its columns must raise while detached
"""
from __future__ import annotations

import itertools

from ..runner import new_part, violation, digest, exc_info

PID = 'C17'
LEVEL = 'model_checking'
RULE = ('BFS over histories of attribute removal / restoration / detachment on real objects with every rendering evaluated after each step, '
        'exhaustive reference product over a 5-column universe x kinds x inline, and attach/detach histories for get_refs; '
        'states = histories executed, transitions = operations applied; distinct_nontrivial = distinct histories / references evaluated')
ASSUMPTIONS = ['only the attributes the statement names are asserted (name of table/column/enum/enum item, type of column, table of index, schema of enum)',
               'where a reference is both detached and mixed either of the two errors is accepted',
               'reference sides have equal length']


def bounds(tier):
    return {'attr_history_depth': 3 if tier == 'quick' else 4, 'ref_side_length': 2, 'ref_history_depth': 3 if tier == 'quick' else 4,
            'getrefs_history_depth': 4 if tier == 'quick' else 5}


# ------------------------------------------------------------------------------------------------
# attrs

def attr_universe():
    from pydbml import Database
    from pydbml.classes import Column, Enum, EnumItem, Index, Table
    db = Database()
    e = Enum('e', [EnumItem('i1'), EnumItem('i2')])
    db.add(e)
    t = Table('t')
    c1 = Column('c1', 'int', pk=True)
    c2 = Column('c2', e)
    t.add_column(c1)
    t.add_column(c2)
    ix = Index([c1], name='ix')
    pkix = Index([c1, c2], pk=True)
    t.add_index(ix)
    t.add_index(pkix)
    db.add(t)
    return {'db': db, 'e': e, 'i1': e.items[0], 't': t, 'c1': c1, 'c2': c2, 'ix': ix, 'pkix': pkix}


# (object key, attribute, good value getter) — the attributes the statement names
ATTRS = [('t', 'name', 't'), ('c1', 'name', 'c1'), ('c1', 'type', 'int'), ('c2', 'name', 'c2'), ('c2', 'type', '<e>'),
         ('e', 'name', 'e'), ('e', 'schema', 'public'), ('i1', 'name', 'i1'), ('ix', 'table', '<t>'), ('pkix', 'table', '<t>')]


def attr_ops():
    ops = []
    for k, a, good in ATTRS:
        ops.append(('unset', k, a))
        ops.append(('restore', k, a))
        if a != 'table':
            ops.append(('empty', k, a))     # an empty string is a value, not a missing attribute
    ops += [('delete', 't'), ('add', 't'), ('delete', 'e'), ('add', 'e')]
    return ops


class AttrModel:
    def __init__(self):
        self.missing = set()
        self.attached = {'t': True, 'e': True}

    def apply(self, op):
        if op[0] == 'unset':
            self.missing.add((op[1], op[2]))
        elif op[0] in ('restore', 'empty'):
            self.missing.discard((op[1], op[2]))
        elif op[0] == 'delete':
            if not self.attached[op[1]]:
                return False
            self.attached[op[1]] = False
        elif op[0] == 'add':
            if self.attached[op[1]]:
                return False
            self.attached[op[1]] = True
        return True

    def expect(self):
        """rendering label -> True (must raise AttributeMissingError) / False (must render)"""
        m = self.missing
        col = {k: ((k, 'name') in m or (k, 'type') in m) for k in ('c1', 'c2')}
        idx = {k: (k, 'table') in m for k in ('ix', 'pkix')}
        item = ('i1', 'name') in m
        enum = ('e', 'name') in m or ('e', 'schema') in m or item
        # a table renders its columns, its pk indexes inside CREATE TABLE and its other indexes after it
        table = ('t', 'name') in m or col['c1'] or col['c2'] or idx['ix'] or idx['pkix']
        exp = {'i1.sql': item, 'e.sql': enum, 'c1.sql': col['c1'], 'c2.sql': col['c2'], 'ix.sql': idx['ix'], 'pkix.sql': idx['pkix'],
               't.sql': table}
        db = (self.attached['t'] and table) or (self.attached['e'] and enum)
        exp['db.sql'] = db
        # c2 is typed by the enum: whether a column may be rendered while its *type's* name or schema is unset is not stated
        # (the column itself lacks nothing) - neither outcome is asserted there
        if ('e', 'name') in m or ('e', 'schema') in m:
            if not col['c2']:
                exp['c2.sql'] = None
            if not table:
                exp['t.sql'] = None
            if not db:
                exp['db.sql'] = None
        if not self.attached['t'] and 't.sql' in exp:
            # the SQL of a table that is in no database needs the database for its references (UnknownDatabaseError, pinned by
            # the repository's tests); the statement does not speak about it: not asserted
            del exp['t.sql']
        return exp


def attr_apply(U, op):
    if op[0] == 'unset':
        setattr(U[op[1]], op[2], None)
    elif op[0] == 'restore':
        good = {('t', 'name'): 't', ('c1', 'name'): 'c1', ('c1', 'type'): 'int', ('c2', 'name'): 'c2', ('c2', 'type'): U['e'],
                ('e', 'name'): 'e', ('e', 'schema'): 'public', ('i1', 'name'): 'i1', ('ix', 'table'): U['t'], ('pkix', 'table'): U['t']}
        setattr(U[op[1]], op[2], good[(op[1], op[2])])
    elif op[0] == 'empty':
        setattr(U[op[1]], op[2], '')
    elif op[0] == 'delete':
        U['db'].delete(U[op[1]])
    elif op[0] == 'add':
        U['db'].add(U[op[1]])


def attr_observe(U):
    out = {}
    for label in ('i1.sql', 'e.sql', 'c1.sql', 'c2.sql', 'ix.sql', 'pkix.sql', 't.sql', 'db.sql'):
        k = label.split('.')[0]
        try:
            v = U[k].sql
            out[label] = 'rendered' if isinstance(v, str) else f'returned {type(v).__name__}'
        except Exception as e:
            out[label] = type(e).__name__
    return out


def attr_history(hist):
    """-> (problem or None, skipped)"""
    U = attr_universe()
    M = AttrModel()
    for n, op in enumerate(hist):
        if not M.apply(op):
            return None, True
        try:
            attr_apply(U, op)
        except Exception as e:
            return (f'step {n} {op}: the edit itself raised {type(e).__name__}: {e}', 'edit-raised', None, exc_info(e)), False
        obs = attr_observe(U)
        exp = M.expect()
        for label, must in exp.items():
            got = obs[label]
            if must is None:
                continue
            if must and got != 'AttributeMissingError':
                return (f'step {n} {op}: {label} gave {got!r} while {sorted(M.missing)} unset: expected AttributeMissingError',
                        'missing-attribute-rendered', 'AttributeMissingError', got), False
            if not must and got != 'rendered':
                return (f'step {n} {op}: {label} gave {got!r} although nothing it renders is unset (unset: {sorted(M.missing)})',
                        'complete-model-refused', 'rendered', got), False
    return None, False


# ------------------------------------------------------------------------------------------------
# refs

def ref_universe():
    from pydbml import Database
    from pydbml.classes import Column, Table
    db = Database()
    A = Table('a')
    B = Table('b', schema='s')
    cols = {}
    for n in ('a1', 'a2'):
        cols[n] = Column(n, 'int')
        A.add_column(cols[n])
    for n in ('b1', 'b2'):
        cols[n] = Column(n, 'int')
        B.add_column(cols[n])
    cols['d'] = Column('d', 'int')
    db.add(A)
    db.add(B)
    return db, {'A': A, 'B': B}, cols


OWNER0 = {'a1': 'A', 'a2': 'A', 'b1': 'B', 'b2': 'B', 'd': None}


def classify(side1, side2, owner):
    detached = any(owner[c] is None for c in side1 + side2)
    mixed = len({owner[c] for c in side1}) > 1 or len({owner[c] for c in side2}) > 1
    return detached, mixed


def ref_expect(kind, inline, side1, side2, owner):
    """label -> set of admissible outcomes ('ok' or exception class names); None = not asserted"""
    detached, mixed = classify(side1, side2, owner)
    eff_inline = inline and kind != '<>'
    exp = {}
    exp['sql'] = {'TableNotFoundError'} if detached else (None if mixed else {'ok'})
    if detached and mixed:
        exp['dbml'] = {'TableNotFoundError', 'DBMLError'}
    elif detached:
        exp['dbml'] = {'TableNotFoundError'}
    elif mixed:
        exp['dbml'] = {'DBMLError'}
    elif eff_inline and len(side2) > 1:
        exp['dbml'] = {'DBMLError'}
    else:
        exp['dbml'] = {'ok'}
    exp['table1'] = {'DBMLError'} if mixed else {'ok'}
    exp['table2'] = {'DBMLError'} if mixed else {'ok'}
    return exp


def ref_observe(r):
    out = {}
    for label in ('sql', 'dbml', 'table1', 'table2'):
        try:
            getattr(r, label)
            out[label] = 'ok'
        except Exception as e:
            out[label] = type(e).__name__
    return out


def sides():
    names = ['a1', 'a2', 'b1', 'b2', 'd']
    out = [(n,) for n in names]
    out += [p for p in itertools.permutations(names, 2)]
    return out


def check_ref(p, kind, inline, s1, s2, attached):
    from pydbml.classes import Reference
    db, tabs, cols = ref_universe()
    r = Reference(kind, [cols[c] for c in s1], [cols[c] for c in s2], inline=inline)
    case = {'mode': 'ref', 'kind': kind, 'inline': inline, 'col1': list(s1), 'col2': list(s2), 'attached': attached}
    if attached:
        try:
            db.add(r)
        except Exception:
            p['outcomes']['ref/not-addable(skipped)'] += 1
            return
    exp = ref_expect(kind, inline, s1, s2, OWNER0)
    obs = ref_observe(r)
    p['evaluations'] += 1
    p['nontrivial'].add(digest(case))
    d, m = classify(s1, s2, OWNER0)
    p['outcomes'][f"ref/{'detached' if d else ''}{'mixed' if m else ''}{'' if d or m else 'consistent'}"] += 1
    for label, allowed in exp.items():
        if allowed is not None and obs[label] not in allowed:
            p['violations'].append(violation(PID, 'reference-guard', dict(case, what=label), expected=sorted(allowed), observed=obs[label],
                                             detail=f'Reference({kind!r}, {list(s1)}, {list(s2)}, inline={inline}).{label}: {obs[label]}, expected {sorted(allowed)}'))


REF_OPS = [('detach', 'a1'), ('detach', 'a2'), ('detach', 'b1'), ('move', 'a2', 'B'), ('move', 'a2', 'A'), ('move', 'a1', 'A'), ('move', 'b1', 'B'),
           ('move', 'b1', 'A')]
REF_SHAPES = [('>', False, ('a1',), ('b1',)), ('>', False, ('a1', 'a2'), ('b1', 'b2')), ('<', True, ('a1',), ('b1',)),
              ('<>', False, ('a1', 'a2'), ('b1', 'b2')), ('-', True, ('a2',), ('b2',)), ('>', False, ('a1', 'b1'), ('a2', 'b2'))]


def ref_history(p, shape, hist):
    from pydbml.classes import Reference
    kind, inline, s1, s2 = shape
    db, tabs, cols = ref_universe()
    r = Reference(kind, [cols[c] for c in s1], [cols[c] for c in s2], inline=inline)
    try:
        db.add(r)
    except Exception:
        pass
    owner = dict(OWNER0)
    case = {'mode': 'refhist', 'shape': [kind, inline, list(s1), list(s2)], 'history': [list(o) for o in hist]}
    ref_observe(r)      # the reference is looked at before anything happens to its columns
    for n, op in enumerate(hist):
        c = op[1]
        if op[0] == 'detach':
            if owner[c] is None:
                return False
            tabs[owner[c]].delete_column(cols[c])
            owner[c] = None
        else:
            if owner[c] == op[2]:
                return False
            if owner[c] is not None:
                tabs[owner[c]].delete_column(cols[c])
            tabs[op[2]].add_column(cols[c])
            owner[c] = op[2]
        exp = ref_expect(kind, inline, s1, s2, owner)
        obs = ref_observe(r)
        for label, allowed in exp.items():
            if allowed is not None and obs[label] not in allowed:
                p['violations'].append(violation(PID, 'reference-guard-after-edit', dict(case, what=label, step=n), expected=sorted(allowed), observed=obs[label],
                                                 detail=f'after {[list(o) for o in hist[:n + 1]]}: reference {kind} {list(s1)} {list(s2)} .{label}: {obs[label]}, expected {sorted(allowed)}'))
                return True
    return True


# ------------------------------------------------------------------------------------------------
# get_refs

TABLE_VARIANTS = {'plain': {}, 'abstract': {'abstract': True}, 'aliased': {'alias': 'tt', 'schema': 's', 'note': 'n', 'header_color': '#fff'}}


def getrefs_join_table(p):
    """the join table a <> reference produces is never in a database: it and its columns must refuse get_refs()"""
    from pydbml import Database
    from pydbml.classes import Column, Table, Reference
    for attached in (False, True):
        a, b = Table('a'), Table('b')
        ac, bc = Column('id', 'int', pk=True), Column('id', 'int', pk=True)
        a.add_column(ac)
        b.add_column(bc)
        r = Reference('<>', ac, bc)
        if attached:
            db = Database()
            db.add(a)
            db.add(b)
            db.add(r)
        j = r.join_table
        p['evaluations'] += 1
        p['nontrivial'].add(digest(['getrefs-join', attached]))
        for label, fn in [('join_table.get_refs', j.get_refs)] + [(f'join_table.{c.name}.get_refs', c.get_refs) for c in j.columns]:
            try:
                v = fn()
                got = 'list' if isinstance(v, list) else type(v).__name__
            except Exception as e:
                got = type(e).__name__
            if got not in ('UnknownDatabaseError', 'TableNotFoundError'):
                p['violations'].append(violation(PID, 'get-refs-guard', {'mode': 'getrefs-join', 'attached': attached, 'what': label},
                                                 expected=['TableNotFoundError', 'UnknownDatabaseError'], observed=got,
                                                 detail=f'{label}() of the join table of a <> reference ({"attached" if attached else "detached"} reference) gave {got}'))
            else:
                p['outcomes']['getrefs-join/refused'] += 1


def getrefs_history(p, hist, variant='plain'):
    from pydbml import Database
    from pydbml.classes import Column, Table, Reference
    db = Database()
    other = Table('o')
    oc = Column('id', 'int')
    other.add_column(oc)
    db.add(other)
    t = Table('t', **TABLE_VARIANTS[variant])
    c = Column('c', 'int')
    t.add_column(c)
    loose = Column('loose', 'int')
    attached = False
    col_in_table = True
    case = {'mode': 'getrefs', 'history': list(hist), 'variant': variant}
    r = Reference('>', c, oc)
    for n, op in enumerate(('init',) + tuple(hist)):
        if op == 'add':
            if attached:
                return False
            db.add(t)
            attached = True
            try:
                db.add(r)
            except Exception:
                pass
        elif op == 'delete':
            if not attached:
                return False
            db.delete(t)
            attached = False
        elif op == 'dropcol':
            if not col_in_table:
                return False
            t.delete_column(c)
            col_in_table = False
        elif op == 'addcol':
            if col_in_table:
                return False
            t.add_column(c)
            col_in_table = True
        obs = {}
        for label, fn in (('t.get_refs', t.get_refs), ('c.get_refs', c.get_refs), ('loose.get_refs', loose.get_refs)):
            try:
                v = fn()
                obs[label] = 'list' if isinstance(v, list) else type(v).__name__
            except Exception as e:
                obs[label] = type(e).__name__
        det = {'UnknownDatabaseError', 'TableNotFoundError'}
        exp = {'t.get_refs': {'list'} if attached else det,
               'c.get_refs': ({'list'} if attached else det) if col_in_table else det,
               'loose.get_refs': det}
        for label, allowed in exp.items():
            if obs[label] not in allowed:
                p['violations'].append(violation(PID, 'get-refs-guard', dict(case, what=label, step=n), expected=sorted(allowed), observed=obs[label],
                                                 detail=f'{variant} table, after {list(hist[:n])}: {label}() gave {obs[label]}, expected {sorted(allowed)}'))
                return True
    return True


# ------------------------------------------------------------------------------------------------

def units(tier, seed):
    b = bounds(tier)
    us = [('attrs', op, b['attr_history_depth']) for op in attr_ops()]
    sd = sides()
    for k in range(0, len(sd), 5):
        us.append(('refs', sd[k:k + 5], None))
    for shape in range(len(REF_SHAPES)):
        us.append(('refhist', shape, b['ref_history_depth']))
    us.append(('getrefs', None, b['getrefs_history_depth']))
    return us


def work(unit):
    mode, arg, depth = unit
    p = new_part()
    if mode == 'attrs':
        ops = attr_ops()
        frontier = [(arg,)]
        while frontier:
            nxt = []
            for hist in frontier:
                prob, skipped = attr_history(hist)
                if skipped:
                    continue
                p['states'] += 1
                p['transitions'] += 1
                p['traces'] += 1
                p['evaluations'] += 1
                p['nontrivial'].add(digest(['attrs', hist]))
                if prob:
                    detail, kind, exp, got = prob
                    p['outcomes'][f'attrs/{kind}'] += 1
                    p['violations'].append(violation(PID, kind, {'mode': 'attrs', 'history': [list(o) for o in hist]}, expected=exp, observed=got, detail=detail))
                    continue
                p['outcomes']['attrs/guards-exact'] += 1
                if len(hist) < depth:
                    for op in ops:
                        if op != hist[-1]:
                            nxt.append(hist + (op,))
            frontier = nxt
        p['samples'].append({'mode': 'attrs', 'history': [list(o) for o in hist]})
    elif mode == 'refs':
        all_sides = sides()
        for s1 in arg:
            for s2 in all_sides:
                if len(s1) != len(s2) or set(s1) & set(s2):
                    continue
                for kind in ('>', '<', '-', '<>'):
                    for inline in (False, True):
                        for attached in (False, True):
                            check_ref(p, kind, inline, s1, s2, attached)
        p['samples'].append({'mode': 'ref', 'col1': list(arg[0]), 'col2': ['b1']})
    elif mode == 'refhist':
        shape = REF_SHAPES[arg]
        for d in range(1, depth + 1):
            for hist in itertools.product(REF_OPS, repeat=d):
                if ref_history(p, shape, hist):
                    p['states'] += 1
                    p['transitions'] += d
                    p['traces'] += 1
                    p['evaluations'] += 1
                    p['nontrivial'].add(digest(['refhist', arg, hist]))
                    p['outcomes']['refhist/executed'] += 1
        p['samples'].append({'mode': 'refhist', 'shape': [shape[0], shape[1], list(shape[2]), list(shape[3])], 'history': [list(o) for o in hist]})
    else:
        for d in range(0, depth + 1):
            for hist in itertools.product(('add', 'delete', 'dropcol', 'addcol'), repeat=d):
                for variant in TABLE_VARIANTS:
                    if getrefs_history(p, hist, variant):
                        p['states'] += 1
                        p['transitions'] += d
                        p['traces'] += 1
                        p['evaluations'] += 1
                        p['nontrivial'].add(digest(['getrefs', hist, variant]))
                        p['outcomes']['getrefs/executed'] += 1
        getrefs_join_table(p)
        p['samples'].append({'mode': 'getrefs', 'history': list(hist)})
    return p


def replay(case):
    p = new_part()
    if case['mode'] == 'attrs':
        prob, _ = attr_history(tuple(tuple(o) for o in case['history']))
        if prob:
            detail, kind, exp, got = prob
            p['violations'].append(violation(PID, kind, case, expected=exp, observed=got, detail=detail))
    elif case['mode'] == 'ref':
        check_ref(p, case['kind'], case['inline'], tuple(case['col1']), tuple(case['col2']), case['attached'])
    elif case['mode'] == 'refhist':
        k, i, s1, s2 = case['shape']
        ref_history(p, (k, i, tuple(s1), tuple(s2)), tuple(tuple(o) for o in case['history']))
    elif case['mode'] == 'getrefs-join':
        getrefs_join_table(p)
    else:
        getrefs_history(p, tuple(case['history']), case.get('variant', 'plain'))
    return p['violations']
