"""C18 — SQL creates a table before any table that references it inline.

Space: every labelled DAG on n tables (n <= 4 quick, n <= 5 thorough), every assignment of the inline
reference kinds {>, <, -} to its edges (key holder -> target is the DAG edge), with and without an
extra non-inline / many-to-many reference, plus a same-bare-name-in-two-schemas variant; cyclic
digraphs on n <= 3 for the permutation/determinism clause only.  Oracle: read `.sql` back with the
independent DDL reader.
"""
from __future__ import annotations

import itertools

from .. import asm, builder, ddl
from ..runner import new_part, violation, digest, exc_info

PID = 'C18'
LEVEL = 'exploration'
RULE = ('all labelled DAGs on n tables x all kind assignments {>,<,-} per edge (+ extra non-inline/<> ref variants, '
        '+ two-schema same-name variant, + all cyclic digraphs n<=3 for clause 2); distinct = digest of '
        '(names, edges, kinds, extra); non-trivial = at least one inline edge')
ASSUMPTIONS = ['the DDL reader (verif/ddl.py) recognises CREATE TABLE and FOREIGN KEY clauses by SQL lexical rules',
               'databases are API-built; table declaration order is t0..tn (all labellings cover all relative orders)']

KINDS = ('>', '<', '-')
TIER = 'quick'


def bounds(tier):
    return {'max_tables': 4 if tier == 'quick' else 5,
            'kinds_full_product_up_to_edges': 6 if tier == 'quick' else 6,
            'cyclic_digraphs_n': 3}


def acyclic(n, edges):
    adj = {i: [] for i in range(n)}
    indeg = [0] * n
    for a, b in edges:
        adj[a].append(b)
        indeg[b] += 1
    stack = [i for i in range(n) if indeg[i] == 0]
    seen = 0
    while stack:
        x = stack.pop()
        seen += 1
        for y in adj[x]:
            indeg[y] -= 1
            if indeg[y] == 0:
                stack.append(y)
    return seen == n


def digraphs(n):
    pairs = [(a, b) for a in range(n) for b in range(n) if a != b]
    for mask in range(1 << len(pairs)):
        yield tuple(p for k, p in enumerate(pairs) if mask >> k & 1)


def units(tier, seed):
    us = []
    nmax = 4 if tier == 'quick' else 5
    for n in range(1, nmax + 1):
        dags = [e for e in digraphs(n) if acyclic(n, e)]
        chunk = 40 if n <= 4 else 400
        for k in range(0, len(dags), chunk):
            us.append(('dag', n, dags[k:k + chunk], 'plain', tier))
        if n <= 3:
            for k in range(0, len(dags), chunk):
                us.append(('dag', n, dags[k:k + chunk], 'twoschema', tier))
                us.append(('dag', n, dags[k:k + chunk], 'columnless', tier))
                us.append(('dag', n, dags[k:k + chunk], 'withenum', tier))
    for n in (2, 3):
        cyc = [e for e in digraphs(n) if not acyclic(n, e)]
        for k in range(0, len(cyc), 3):
            us.append(('cyclic', n, cyc[k:k + 3], 'plain', tier))
    return us


def names_for(n, variant):
    if variant == 'twoschema':
        # bare names collide across schemas
        base = [('public', 'a'), ('s', 'a'), ('public', 'b'), ('s', 'b'), ('public', 'c')]
        return base[:n]
    return [('public', f't{i}') for i in range(n)]


def make_model(n, edges, kinds, extra, variant):
    nm = names_for(n, variant)
    tables, refs = [], []
    cols = {i: [asm.col('id', 'int')] for i in range(n)}
    for (h, t), k in zip(edges, kinds):
        cols[h].append(asm.col(f'k{t}', 'int'))
    for i in range(n):
        tables.append(asm.table(nm[i][1], cols[i], schema=nm[i][0]))
    for (h, t), k in zip(edges, kinds):
        hc = [nm[h][0], nm[h][1], f'k{t}']
        tc = [nm[t][0], nm[t][1], 'id']
        if k == '<':
            refs.append(asm.ref('<', [tc], [hc], inline=True))
        else:
            refs.append(asm.ref(k, [hc], [tc], inline=True))
    enums = []
    if variant == 'withenum':
        # an enum (CREATE TYPE comes first in the script) used by a column of the first table
        enums.append(asm.enum('e', ['x', 'y']))
        tables[0]['columns'].append(asm.col('st', ['enum', 'public', 'e']))
    if variant == 'columnless':
        # a table without any column (reachable through the API only) is still one of the database's tables
        tables.insert(len(tables) // 2, asm.table('nocols', []))
    if extra and n >= 2:
        a = [nm[0][0], nm[0][1], 'id']
        b = [nm[n - 1][0], nm[n - 1][1], 'id']
        if extra == 'noninline':
            refs.insert(0, asm.ref('>', [a], [b], inline=False))
        elif extra == 'm2m':
            refs.insert(0, asm.ref('<>', [a], [b], inline=False))
        elif extra == 'm2m_inline_flag':
            refs.insert(0, asm.ref('<>', [a], [b], inline=True))
    return asm.model(tables=tables, refs=refs, enums=enums)


EDIT_ALPHABET = [('inline', False), ('inline', True), ('type', '>'), ('type', '-'), ('type', '<>')]


def check_edit_histories(m, case, vs):
    """"depends only on the model": every sequence of up to two edits of one reference's inline flag / kind, applied to a database
    that was rendered before, gives the SQL of a fresh database with the final content (final contents are themselves elements of the product)"""
    n_checked = 0
    for k, r in enumerate(m['refs']):
        if r['type'] == '<':
            alphabet = EDIT_ALPHABET[:2]
        else:
            alphabet = EDIT_ALPHABET
        for d in (1, 2):
            for seq in itertools.product(alphabet, repeat=d):
                m2 = asm.clone(m)
                for attr, val in seq:
                    m2['refs'][k][attr] = val
                if all(m2['refs'][k][a] == r[a] for a in ('inline', 'type')) and d == 1:
                    continue
                try:
                    dbe = builder.build(m)
                    dbe.sql
                    for attr, val in seq:
                        setattr(dbe.refs[k], attr, val)
                    s_hist = dbe.sql
                except Exception as e:
                    vs.append(violation(PID, 'render-crash', dict(case, ref=k, edits=[list(x) for x in seq]), observed=exc_info(e), detail=f'{type(e).__name__}: {e}'))
                    continue
                try:
                    s_fresh = builder.build(m2).sql
                except Exception:
                    continue
                n_checked += 1
                if s_hist != s_fresh:
                    vs.append(violation(PID, 'order-depends-on-history', dict(case, ref=k, edits=[list(x) for x in seq]),
                                        detail=f'after rendering and then editing reference {k} with {list(seq)}, .sql differs from the .sql of a fresh database with the same content'))
    return n_checked


def qn(parts):
    return ('public', parts[0]) if len(parts) == 1 else (parts[0], parts[1])


def check_model(m, acyclic_graph, case):
    """-> (violations, outcome label)"""
    vs = []
    try:
        db = builder.build(m)
        sql1 = db.sql
        sql2 = db.sql
        sql3 = builder.build(m).sql
    except Exception as e:
        return [violation(PID, 'render-crash', case, observed=exc_info(e), detail=f'{type(e).__name__}: {e}')], 'crash'
    if not (sql1 == sql2 == sql3):
        vs.append(violation(PID, 'order-not-deterministic', case, detail='two evaluations / an equal rebuilt database give different SQL'))
    # "depends only on the model": a database that was rendered, then edited (one inline reference made standalone), must
    # order its tables exactly like a database freshly built with the edited content and never rendered before
    inl = [k for k, r in enumerate(m['refs']) if r['inline'] and r['type'] != '<>']
    for k in ((inl if acyclic_graph or TIER != 'quick' else inl[:1]) if len(m['tables']) <= 3 else (inl[:1] if TIER != 'quick' else [])):
        m2 = asm.clone(m)
        m2['refs'][k]['inline'] = False
        try:
            dbe = builder.build(m)
            dbe.sql
            dbe.refs[k].inline = False
            s_hist = dbe.sql
            s_fresh = builder.build(m2).sql
        except Exception as e:
            vs.append(violation(PID, 'render-crash', dict(case, edit=k), observed=exc_info(e), detail=f'{type(e).__name__}: {e}'))
            continue
        if s_hist != s_fresh:
            vs.append(violation(PID, 'order-depends-on-history', dict(case, edit=k),
                                detail=f'after rendering and then making reference {k} standalone, .sql differs from the .sql of a fresh database with the same content'))
    if len(m['tables']) <= 3 and len(m['refs']) <= 2:
        check_edit_histories(m, case, vs)
    try:
        st = ddl.read(sql1)
    except ddl.DDLError as e:
        return vs + [violation(PID, 'unreadable-sql', case, observed=sql1, detail=str(e))], 'unreadable'
    declared = [(t['schema'], t['name']) for t in m['tables']]
    join_names = set()
    for r in m['refs']:
        if r['type'] == '<>':
            join_names.add((r['col1'][0][0], f"{r['col1'][0][1]}_{r['col2'][0][1]}"))
    created = [qn(s['name']) for s in st if s['kind'] == 'table']
    created_own = [c for c in created if not (c in join_names and c not in declared)]
    case = dict(case, observed_order=[list(c) for c in created_own])
    # every inline FOREIGN KEY clause must sit in the table the model says holds that key (else the order question is moot)
    want_fk = set()
    for r in m['refs']:
        if r['inline'] and r['type'] != '<>':
            key, ref = (r['col2'], r['col1']) if r['type'] == '<' else (r['col1'], r['col2'])
            want_fk.add(((key[0][0], key[0][1]), (ref[0][0], ref[0][1])))
    got_fk = {(qn(s['name']), qn(fk['ref_table'])) for s in st if s['kind'] == 'table' for fk in s['fks']}
    if got_fk != want_fk:
        vs.append(violation(PID, 'inline-fk-misplaced', case, expected=sorted(want_fk), observed=sorted(got_fk),
                            detail=f'inline FOREIGN KEY clauses (holder, target) {sorted(got_fk)} != model inline edges {sorted(want_fk)}'))
        return vs, 'misplaced'
    if sorted(created_own) != sorted(declared):
        vs.append(violation(PID, 'not-a-permutation', case, expected=sorted(declared), observed=created_own,
                            detail=f'CREATE TABLE list {created_own} is not a permutation of the tables {declared}'))
        return vs, 'notperm'
    pos = {c: i for i, c in enumerate(created_own)}
    bad = []
    inline_seen = 0
    for s in st:
        if s['kind'] != 'table' or qn(s['name']) not in pos:
            continue
        holder = qn(s['name'])
        for fk in s['fks']:
            inline_seen += 1
            target = qn(fk['ref_table'])
            if target != holder and target in pos and pos[target] > pos[holder]:
                bad.append([list(holder), list(target)])
    if acyclic_graph and bad:
        vs.append(violation(PID, 'target-after-holder', case, observed=[list(c) for c in created_own],
                            detail=f'inline FOREIGN KEY in {bad[0][0]} references {bad[0][1]} which is created later; order={created_own}'))
    return vs, ('ordered' if not bad else 'misordered') + f'/fk{min(inline_seen, 3)}'


def work(unit):
    global TIER
    mode, n, graphs, variant, TIER = unit
    p = new_part()
    for edges in graphs:
        e = len(edges)
        if e <= 6:
            kind_sets = list(itertools.product(KINDS, repeat=e))
        else:
            kind_sets = [(k,) * e for k in KINDS] + [tuple(KINDS[(i + s) % 3] for i in range(e)) for s in range(3)]
        for kinds in kind_sets:
            extras = [None]
            if n >= 2 and (n <= 3 or e <= 2):
                extras = [None, 'noninline', 'm2m', 'm2m_inline_flag']
            for extra in extras:
                case = {'n': n, 'edges': [list(x) for x in edges], 'kinds': list(kinds), 'extra': extra,
                        'variant': variant, 'acyclic': mode == 'dag'}
                m = make_model(n, edges, kinds, extra, variant)
                vs, out = check_model(m, mode == 'dag', case)
                p['evaluations'] += 1
                if e:
                    p['nontrivial'].add(digest(case))
                p['outcomes'][f'{mode}/{out}'] += 1
                p['violations'].extend(vs)
                if len(p['samples']) < 2 and e >= 2:
                    p['samples'].append(case)
    return p


def replay(case):
    m = make_model(case['n'], [tuple(x) for x in case['edges']], case['kinds'], case['extra'], case['variant'])
    c = {k: v for k, v in case.items() if k not in ('observed_order', 'ref', 'edits', 'edit')}
    vs, _ = check_model(m, case['acyclic'], c)
    if 'edits' in case:
        vs = [v for v in vs if v['case'].get('edits') == case['edits'] and v['case'].get('ref') == case['ref']]
    return vs
