"""CLI:  python -m verif.replay /verif/replays/Cnn/<sha>.json
Re-runs exactly the recorded case against the current tree, without the explorer.
Exit 1 (and a VIOLATION line) if it still fails, 0 otherwise."""
import importlib
import json
import sys

sys.dont_write_bytecode = True


def main():
    path = sys.argv[1]
    with open(path) as f:
        v = json.load(f)
    from .runner import bind_repo
    bind_repo()
    mod = importlib.import_module(f"verif.props.{v['property'].lower()}")
    if hasattr(mod, 'init_worker'):
        mod.init_worker()
    vs = mod.replay(v['case'])
    # recorded known findings are not violations here either (same matchers as the checks use)
    from .runner import load_findings, match_finding
    findings = load_findings(v['property'])
    known = [x for x in vs if match_finding(x, findings) is not None]
    for f in sorted({match_finding(x, findings)['id'] for x in known}):
        print(f"KNOWN-FINDING: property={v['property']} (id={f}) reproduced by this replay")
    vs = [x for x in vs if match_finding(x, findings) is None]
    same = [x for x in vs if x['kind'] == v['kind']] or vs
    if same:
        print(f"VIOLATION property={v['property']} replay={path}")
        for x in same[:3]:
            print(f"  kind={x['kind']} detail={x['detail'][:400]}")
        sys.exit(1)
    print('replay passes on the current tree')


if __name__ == '__main__':
    main()
