"""E7: runner, evidence writer, replay files, known findings.

A check module (verif/props/cNN.py) exposes

    PID, LEVEL                          property id and evidence level
    units(tier, seed) -> list           picklable work units that together cover the stated space
    work(unit) -> Part                  explore one unit completely on the real code
    finish(ctx, parts) -> None          optional: cross-unit checks / extra coverage keys
    replay(case) -> list[Violation]     re-run one recorded case without the explorer

``Part`` and ``Violation`` are plain dicts so they cross process boundaries.
"""
from __future__ import annotations

import hashlib
import importlib
import json
import multiprocessing as mp
import os
import sys
import time
import traceback
from collections import Counter

VERIF_DIR = os.path.dirname(os.path.dirname(os.path.abspath(__file__)))
REPO = os.path.abspath(os.environ.get('VERIF_REPO', '/repo'))


def bind_repo():
    """Make ``import pydbml`` resolve to the working tree under $VERIF_REPO and prove it."""
    sys.dont_write_bytecode = True
    if sys.path[0] != REPO:
        sys.path.insert(0, REPO)
    import pydbml  # noqa
    f = os.path.abspath(pydbml.__file__)
    if not f.startswith(REPO + os.sep):
        raise SystemExit(f'harness error: pydbml imported from {f}, expected under {REPO}')
    return pydbml


def digest(obj) -> str:
    return hashlib.sha1(json.dumps(obj, sort_keys=True, default=repr).encode()).hexdigest()[:16]


def new_part():
    return {
        'evaluations': 0,       # executions of the real code
        'nontrivial': set(),    # digests of distinct non-trivial cases
        'states': 0,
        'transitions': 0,
        'traces': 0,
        'violations': [],
        'outcomes': Counter(),  # vacuity guard: distinct observed outcome classes
        'samples': [],
        'extra': {},            # summed integer counters, check specific
        'sets': {},             # named sets, united over units; their sizes are reported as coverage keys 'distinct_<name>'
        'caps': [],
    }


def merge_parts(parts):
    tot = new_part()
    for p in parts:
        tot['evaluations'] += p['evaluations']
        tot['nontrivial'] |= p['nontrivial']
        tot['states'] += p['states']
        tot['transitions'] += p['transitions']
        tot['traces'] += p['traces']
        tot['violations'].extend(p['violations'])
        tot['outcomes'].update(p['outcomes'])
        if len(tot['samples']) < 12:
            tot['samples'].extend(p['samples'][:2])
        for k, v in p['extra'].items():
            tot['extra'][k] = tot['extra'].get(k, 0) + v
        for k, v in p.get('sets', {}).items():
            tot['sets'].setdefault(k, set()).update(v)
        tot['caps'].extend(p['caps'])
        tot.setdefault('known_hits', Counter()).update(p.get('known_hits', {}))
        tot.setdefault('fresh_counts', Counter()).update(p.get('fresh_counts', {}))
    return tot


def violation(pid, kind, case, expected=None, observed=None, detail=''):
    """kind: short stable name of the oracle clause that failed (used by known-finding matchers)."""
    return {'property': pid, 'kind': kind, 'case': case, 'expected': expected,
            'observed': observed, 'detail': detail}


def exc_info(e: BaseException) -> dict:
    tb = traceback.extract_tb(e.__traceback__)
    frames = [f'{os.path.relpath(fr.filename, REPO) if fr.filename.startswith(REPO) else os.path.basename(fr.filename)}:{fr.name}'
              for fr in tb[-4:]]
    return {'class': type(e).__name__, 'msg': str(e)[:200], 'where': frames}


# ----------------------------------------------------------------------------------------------
# pool

_MOD = None


def _init_worker(modname):
    global _MOD
    bind_repo()
    _MOD = importlib.import_module(modname)
    if hasattr(_MOD, 'init_worker'):
        _MOD.init_worker()


def _filter_known(p):
    """Match violations against the known findings inside the worker (keeps transport small) and
    keep at most 40 fresh violations per kind per unit (all are counted)."""
    global _FINDINGS
    if _FINDINGS is None:
        _FINDINGS = load_findings(_MOD.PID)
    fresh, per_kind = [], Counter()
    p['known_hits'] = Counter()
    p['fresh_counts'] = Counter()
    for v in p['violations']:
        f = match_finding(v, _FINDINGS)
        if f is not None:
            p['known_hits'][f['id']] += 1
            continue
        p['fresh_counts'][v['kind']] += 1
        per_kind[v['kind']] += 1
        if per_kind[v['kind']] <= int(os.environ.get('VERIF_VIOL_CAP', 40)):
            fresh.append(v)
    p['violations'] = fresh
    return p


_FINDINGS = None


def _run_unit(unit):
    try:
        return _filter_known(_MOD.work(unit))
    except BaseException as e:
        # An exception that escaped the per-case classification of a check.  On a tree where the
        # property holds this never happens (every run on the pinned tree is silent), so it is
        # reported as a violation (kind 'unclassified-crash') rather than swallowed.
        p = new_part()
        p['violations'].append(violation(_MOD.PID, 'unclassified-crash', {'unit': repr(unit)[:2000]},
                                         observed=exc_info(e), detail=traceback.format_exc()[-1500:]))
        return _filter_known(p)


def run_units(modname, units, jobs):
    if jobs <= 1 or len(units) <= 1:
        _init_worker(modname)
        return [_run_unit(u) for u in units]
    ctx = mp.get_context('fork')
    with ctx.Pool(min(jobs, len(units)), initializer=_init_worker, initargs=(modname,)) as pool:
        if not os.environ.get('VERIF_FAIL_FAST'):
            return list(pool.imap_unordered(_run_unit, units, chunksize=1))
        # detection self-tests only (verif.mutsweep): stop at the first unit that reports a fresh violation
        parts = []
        for p in pool.imap_unordered(_run_unit, units, chunksize=1):
            parts.append(p)
            if p['violations']:
                p['caps'].append(f'VERIF_FAIL_FAST: stopped after {len(parts)} of {len(units)} units')
                pool.terminate()
                break
        return parts


# ----------------------------------------------------------------------------------------------
# known findings

def load_findings(pid):
    path = os.path.join(VERIF_DIR, 'known_findings.json')
    if not os.path.exists(path):
        return []
    with open(path) as f:
        data = json.load(f)
    return [x for x in data.get('findings', []) if x['property'] == pid]


def match_finding(v, findings):
    from . import findings as fmod
    for f in findings:
        fn = getattr(fmod, f['matcher'])
        try:
            if fn(v, f.get('params', {})):
                return f
        except Exception:
            continue
    return None


# ----------------------------------------------------------------------------------------------
# main entry

def write_replay(pid, v):
    d = os.path.join(os.environ.get('VERIF_REPLAY_DIR') or os.path.join(VERIF_DIR, 'replays'), pid)
    os.makedirs(d, exist_ok=True)
    path = os.path.join(d, digest([v['kind'], v['case']]) + '.json')
    body = dict(v)
    body['replay_cmd'] = f'/venv/bin/python -m verif.replay {path}'
    with open(path, 'w') as f:
        json.dump(body, f, indent=1, default=repr, ensure_ascii=False)
    return path


def run_check(pid, tier, seed, jobs):
    t0 = time.time()
    bind_repo()
    modname = f'verif.props.{pid.lower()}'
    mod = importlib.import_module(modname)
    units = mod.units(tier, seed)
    # unit order is permuted by the seed (scheduling only; every unit is always run)
    import random
    random.Random(seed).shuffle(units)
    parts = run_units(modname, units, jobs)
    tot = merge_parts(parts)
    ctx = {'tier': tier, 'seed': seed, 'tot': tot, 'coverage_extra': {}, 'units': len(units)}
    if hasattr(mod, 'finish'):
        mod.finish(ctx)

    findings = load_findings(pid)
    known_hits = tot.get('known_hits', Counter())
    fresh = []
    for v in tot['violations']:   # workers already filtered; finish() may have added more
        f = match_finding(v, findings) if v.get('_late') else None
        if f is not None:
            known_hits[f['id']] += 1
        else:
            fresh.append(v)

    for f in findings:
        if known_hits[f['id']]:
            print(f"KNOWN-FINDING: property={pid} {f['what']} (id={f['id']}, {known_hits[f['id']]} cases in this run)")

    # group fresh violations by kind, write at most 6 replays per kind (smallest cases first)
    by_kind = {}
    for v in fresh:
        by_kind.setdefault(v['kind'], []).append(v)
    replay_paths = []
    for kind, vs in sorted(by_kind.items()):
        vs.sort(key=lambda v: len(json.dumps(v['case'], default=repr)))
        for v in vs[:6]:
            path = write_replay(pid, v)
            replay_paths.append(path)
            print(f'VIOLATION property={pid} replay={path}')
            print(f"  kind={kind} detail={v['detail'][:300]}")
        if len(vs) > 6:
            print(f'  ... {len(vs) - 6} more violations of kind {kind} not written')

    cov = {
        'evaluations': tot['evaluations'],
        'distinct_nontrivial': len(tot['nontrivial']),
        'rule': getattr(mod, 'RULE', ''),
        'samples': tot['samples'][:12] or ['(none)'],
        'states': tot['states'],
        'transitions': tot['transitions'],
        'traces_validated_against_impl': tot['traces'],
        'exhaustive': not tot['caps'],
        'bounds': mod.bounds(tier) if hasattr(mod, 'bounds') else {},
        'distinct_outcomes': dict(tot['outcomes'].most_common(40)),
        'work_units': len(units),
        'known_findings_hit': dict(known_hits),
        'caps_hit': tot['caps'][:10],
        'fresh_violation_kinds': dict(tot.get('fresh_counts', {})) or {k: len(v) for k, v in by_kind.items()},
    }
    cov.update({k: v for k, v in tot['extra'].items()})
    cov.update({f'distinct_{k}': len(v) for k, v in tot['sets'].items()})
    cov.update(ctx['coverage_extra'])
    if cov['states'] == 0:
        for k in ('states', 'transitions', 'traces_validated_against_impl'):
            cov.pop(k)
    ev = {
        'property_id': pid, 'tier': tier, 'seed': seed, 'level': mod.LEVEL,
        'coverage': cov,
        'assumptions': getattr(mod, 'ASSUMPTIONS', []),
        'wall_s': round(time.time() - t0, 2),
        'violations': len(fresh),
    }
    evdir = os.environ.get('VERIF_EVIDENCE_DIR') or os.path.join(VERIF_DIR, 'evidence')
    os.makedirs(evdir, exist_ok=True)
    with open(os.path.join(evdir, f'{pid}.json'), 'w') as f:
        json.dump(ev, f, indent=1, default=repr, ensure_ascii=False)

    print(f"{pid} tier={tier} seed={seed} evaluations={cov['evaluations']} distinct_nontrivial={cov['distinct_nontrivial']} "
          f"states={tot['states']} transitions={tot['transitions']} outcomes={len(tot['outcomes'])} "
          f"fresh_violations={len(fresh)} known={sum(known_hits.values())} wall={ev['wall_s']}s")
    return 1 if fresh else 0
