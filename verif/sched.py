"""E5: controlled thread scheduler for stateless, preemption-bounded exploration (hand-rolled, CHESS style).

Harness threads run real code under ``sys.settrace``; a local trace function is installed only for frames whose code lives
under ``<repo>/pydbml/`` (pyparsing frames run untraced at full speed, but every pydbml frame they call — the parse actions —
is traced), and every ``line`` event there is a scheduling point.  Threads hand a baton over per-thread semaphores, so exactly
one runs at any time and the interleaving is fully determined by the schedule.

A schedule is ``(first, switches)`` where ``switches`` is a tuple of (thread, n): "when <thread> is about to execute its n-th
scheduling point, preempt it and run the other thread".  When a thread finishes, the other continues (a free switch).
``run(bodies, schedule)`` returns the per-thread results, the number of points each thread reached and the realised switch
log; replaying the same schedule must give the same point counts (checked by the caller).
"""
from __future__ import annotations

import sys
import threading


class Controller:
    def __init__(self, nthreads, first, switches, prefix):
        self.n = nthreads
        self.sem = [threading.Semaphore(0) for _ in range(nthreads)]
        self.count = [0] * nthreads
        self.done = [False] * nthreads
        self.switches = {(t, k) for t, k in switches}
        self.first = first
        self.prefix = prefix
        self.log = []
        self.current = None
        self.error = None

    def other(self, i):
        for d in range(1, self.n):
            j = (i + d) % self.n
            if not self.done[j]:
                return j
        return None

    def point(self, i):
        k = self.count[i]
        self.count[i] += 1
        if (i, k) in self.switches:
            j = self.other(i)
            if j is not None:
                self.log.append((i, k, j))
                self.current = j
                self.sem[j].release()
                self.sem[i].acquire()

    def finished(self, i):
        self.done[i] = True
        j = self.other(i)
        if j is not None:
            self.current = j
            self.sem[j].release()


def run(bodies, first=0, switches=(), prefix=None, timeout=60, granularity='line', write_probe=None):
    """bodies: list of zero-argument callables.  -> (results, counts, log)   results[i] = ('ok', value) | ('exc', exception)

    write_probe: optional (cls, ids) — while the schedule runs, ``cls.__setattr__`` is wrapped so that every attribute write by a
    harness thread to an object whose id is in ``ids`` is a scheduling point too (granularity 'writes': *only* those writes are
    points).  Used to interleave two first parses inside pyparsing's lazy set-up of the shared grammar."""
    prefix = prefix or ''
    n = len(bodies)
    ctl = Controller(n, first, switches, prefix)
    results = [None] * n
    tls = threading.local()
    restore = None
    if write_probe is not None:
        cls, ids = write_probe
        orig = cls.__setattr__

        def probe(self, name, value):
            i = getattr(tls, 'index', None)
            if i is not None and id(self) in ids:
                ctl.point(i)
            orig(self, name, value)
        cls.__setattr__ = probe
        restore = (cls, orig)

    def make_trace(i):
        def local(frame, event, arg):
            if event == 'line':
                ctl.point(i)
            return local

        def glob(frame, event, arg):
            if granularity == 'writes':
                return None
            if event == 'call' and frame.f_code.co_filename.startswith(prefix):
                if granularity == 'call':
                    ctl.point(i)        # one scheduling point per entry into a pydbml function
                    return None
                return local
            return None
        return glob

    def worker(i):
        ctl.sem[i].acquire()
        tls.index = i
        sys.settrace(make_trace(i))
        try:
            results[i] = ('ok', bodies[i]())
        except BaseException as e:      # noqa
            results[i] = ('exc', e)
        finally:
            sys.settrace(None)
            ctl.finished(i)

    threads = [threading.Thread(target=worker, args=(i,), daemon=True) for i in range(n)]
    try:
        for t in threads:
            t.start()
        ctl.current = first
        ctl.sem[first].release()
        for t in threads:
            t.join(timeout)
            if t.is_alive():
                raise RuntimeError('scheduler: a harness thread did not finish (deadlock or runaway)')
    finally:
        if restore is not None:
            restore[0].__setattr__ = restore[1]
    return results, list(ctl.count), list(ctl.log)
