"""Seeded-change bookkeeping (developer tool, not a registered command).

  python -m verif.seed --src /tmp/wt/C01/out/1 --id C01-refs-order --property C01 --checks C01,C05 --needs "..."
  python -m verif.seed --rerun C01-refs-order [--checks C01] [--tier quick]      # re-run checks against a kept change
  python -m verif.seed --table                                                   # which check catches which change

Confirms a proposed property-breaking change independently, in a scratch copy of /repo (outside /repo and /verif):
the demonstration passes on the unchanged tree, the patch applies, the repository's own test-suite still passes with
it, the demonstration fails with it.  Then runs the named checks with VERIF_REPO pointing at the scratch copy and
records everything in /verif/seeded/<id>/{patch.diff, demo.py, notes.md, meta.json}.  The scratch copy is removed.
"""
import argparse
import json
import os
import shutil
import subprocess
import sys
import tempfile
import time

VERIF = os.path.dirname(os.path.dirname(os.path.abspath(__file__)))
SEEDED = os.path.join(VERIF, 'seeded')
PY = '/venv/bin/python'


def sh(cmd, cwd, env=None, timeout=3600):
    r = subprocess.run(cmd, cwd=cwd, env=env, capture_output=True, text=True, timeout=timeout)
    return r.returncode, r.stdout, r.stderr


def scratch():
    d = tempfile.mkdtemp(prefix='pydbml_seed_', dir='/tmp')
    subprocess.check_call(['rsync', '-a', '--exclude', '.git', '--exclude', '__pycache__', '--exclude', 'out', '/repo/', d + '/'])
    return d


def run_checks(d, checks, tier):
    env = dict(os.environ, VERIF_REPO=d, PYTHONDONTWRITEBYTECODE='1', VERIF_EVIDENCE_DIR=d + '/.ev', VERIF_REPLAY_DIR=d + '/.replays')
    res = {}
    for pid in checks:
        t0 = time.time()
        rc, out, err = sh([PY, '-m', 'verif.check', pid, '--tier', tier], VERIF, env)
        viol = [l for l in out.splitlines() if l.startswith('VIOLATION')]
        kinds = sorted({l.strip().split(' ')[0].replace('kind=', '') for l in out.splitlines() if l.startswith('  kind=')})
        first = next((l.strip()[:300] for l in out.splitlines() if l.startswith('  kind=')), '')
        res[pid] = {'exit': rc, 'detected': bool(viol) and rc == 1, 'violation_lines': len(viol), 'kinds': kinds, 'first': first,
                    'wall_s': round(time.time() - t0, 1)}
        if rc not in (0, 1):
            res[pid]['error'] = (out[-800:] + err[-800:])
        print(f"  {pid}: exit={rc} {'DETECTED' if res[pid]['detected'] else 'missed'} kinds={kinds} {first[:160]}")
    return res


def confirm(src, d):
    env = dict(os.environ, PYTHONPATH=d, PYTHONDONTWRITEBYTECODE='1')
    demo = os.path.join(src, 'demo.py')
    rc0, o0, e0 = sh([PY, demo], d, env, 600)
    rc, out, err = sh(['patch', '-p1', '-s', '-d', d, '-i', os.path.join(src, 'patch.diff')], '/', None)
    if rc != 0:
        return {'ok': False, 'why': 'patch does not apply: ' + (out + err)[-300:]}
    rct, ot, et = sh([PY, '-m', 'pytest', '-q', '-p', 'no:cacheprovider', '--timeout=900'], d, env, 1800)
    tail = ot.strip().splitlines()[-1] if ot.strip() else et[-200:]
    rc1, o1, e1 = sh([PY, demo], d, env, 600)
    ok = rc0 == 0 and rct == 0 and '470 passed' in tail and rc1 != 0
    return {'ok': ok, 'demo_unchanged_exit': rc0, 'tests_with_change': tail, 'demo_with_change_exit': rc1,
            'demo_message': (o1 + e1).strip().splitlines()[-1][:300] if (o1 + e1).strip() else ''}


def table():
    rows = []
    for name in sorted(os.listdir(SEEDED)):
        mp = os.path.join(SEEDED, name, 'meta.json')
        if not os.path.exists(mp):
            continue
        m = json.load(open(mp))
        det = [k for k, v in m.get('checks', {}).items() if v.get('detected')]
        mis = [k for k, v in m.get('checks', {}).items() if not v.get('detected')]
        rows.append((name, m['property'], ','.join(det) or '-', ','.join(mis) or '-', m.get('summary', '')[:90]))
    print('| change | breaks | caught by | run but silent | what |')
    print('|---|---|---|---|---|')
    for r in rows:
        print('| ' + ' | '.join(r) + ' |')


def main():
    ap = argparse.ArgumentParser()
    ap.add_argument('--src')
    ap.add_argument('--id')
    ap.add_argument('--property')
    ap.add_argument('--checks', default='')
    ap.add_argument('--needs', default='')
    ap.add_argument('--summary', default='')
    ap.add_argument('--origin', default='independent sub-agent given only the property text and a scratch worktree')
    ap.add_argument('--tier', default='quick')
    ap.add_argument('--rerun')
    ap.add_argument('--table', action='store_true')
    a = ap.parse_args()
    if a.table:
        return table()
    if a.rerun:
        dest = os.path.join(SEEDED, a.rerun)
        meta = json.load(open(os.path.join(dest, 'meta.json')))
        d = scratch()
        try:
            rc, out, err = sh(['patch', '-p1', '-s', '-d', d, '-i', os.path.join(dest, 'patch.diff')], '/')
            if rc != 0:
                print('patch no longer applies:', out, err)
                return 2
            checks = a.checks.split(',') if a.checks else sorted(meta.get('checks', {})) or [meta['property']]
            res = run_checks(d, checks, a.tier)
            meta.setdefault('checks', {}).update(res)
            meta['checks_run_at'] = subprocess.run(['git', '-C', VERIF, 'rev-parse', '--short', 'HEAD'], capture_output=True, text=True).stdout.strip()
            json.dump(meta, open(os.path.join(dest, 'meta.json'), 'w'), indent=1)
        finally:
            shutil.rmtree(d, ignore_errors=True)
        return 0
    d = scratch()
    try:
        print(f'{a.id}: confirming in {d}')
        conf = confirm(a.src, d)
        print('  ', conf)
        if not conf['ok']:
            print('  NOT KEPT (confirmation failed)')
            return 1
        res = run_checks(d, [c for c in a.checks.split(',') if c], a.tier)
        dest = os.path.join(SEEDED, a.id)
        os.makedirs(dest, exist_ok=True)
        for f in ('patch.diff', 'demo.py', 'notes.md'):
            if os.path.exists(os.path.join(a.src, f)):
                shutil.copy(os.path.join(a.src, f), os.path.join(dest, f))
        meta = {'id': a.id, 'property': a.property, 'summary': a.summary, 'needs_to_manifest': a.needs, 'origin': a.origin,
                'base_commit': subprocess.run(['git', '-C', '/repo', 'rev-parse', '--short', 'HEAD'], capture_output=True, text=True).stdout.strip(),
                'confirmation': conf,
                'ran': ['demo.py on an unchanged scratch copy of /repo (exit 0)', 'git apply patch.diff',
                        'repository test-suite with the change (470 passed)', 'demo.py with the change (non-zero exit)',
                        'verif.check <id> --tier ' + a.tier + ' with VERIF_REPO=<scratch copy> for the checks listed under "checks"'],
                'checks': res}
        json.dump(meta, open(os.path.join(dest, 'meta.json'), 'w'), indent=1)
    finally:
        shutil.rmtree(d, ignore_errors=True)
    return 0


if __name__ == '__main__':
    sys.exit(main())
