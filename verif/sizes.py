"""Print the measured-sizes table for DESIGN.md from evidence files: python -m verif.sizes <quick evidence dir> [<thorough evidence dir>]"""
import json
import os
import sys


def row(d, pid):
    p = os.path.join(d, pid + '.json')
    if not os.path.exists(p):
        return None
    e = json.load(open(p))
    c = e.get('coverage', e)
    def g(*names):
        for n in names:
            for src in (c, e):
                if isinstance(src, dict) and n in src:
                    return src[n]
        return '-'
    return [g('evaluations'), g('distinct_nontrivial'), g('states', 'states_explored'), g('transitions', 'transitions_explored'), g('wall_seconds', 'wall_s', 'duration_s')]


def fmt(x):
    return f'{x:,}' if isinstance(x, int) else (f'{x:,.0f}' if isinstance(x, float) else str(x))


def main():
    q = sys.argv[1]
    t = sys.argv[2] if len(sys.argv) > 2 else None
    print('| check | quick: evaluations / distinct / states / transitions / wall s | thorough: evaluations / distinct / states / transitions / wall s |')
    print('|---|---|---|')
    for i in range(1, 19):
        pid = f'C{i:02d}'
        rq = row(q, pid)
        rt = row(t, pid) if t else None
        print(f"| {pid} | {' / '.join(fmt(x) for x in rq) if rq else '-'} | {' / '.join(fmt(x) for x in rt) if rt else '-'} |")


if __name__ == '__main__':
    main()
