"""Reference semantics of the SQL DDL: abstract model (verif.asm form) -> the facts `.sql` must state.

Written from the statements of C03 / C04 only (no pydbml import).  ``facts(model)`` and
``read_facts(ddl.read(sql))`` produce the same shape, so the oracle is plain equality of facts.
"""
from __future__ import annotations

from collections import Counter


def qname(schema, name):
    return [name] if schema == 'public' else [schema, name]


def _tuple(x):
    if isinstance(x, list):
        return tuple(_tuple(i) for i in x)
    return x


def default_text(d):
    k = d[0]
    if k == 'none':
        return None
    if k == 'expr':
        return '(' + d[1] + ')'
    if k == 'bool':
        return 'true' if d[1] else 'false'
    if k in ('int', 'float'):
        return repr(d[1])
    return d[1]


def norm_default(col_default_text, kind):
    """Observed DEFAULT text -> comparable form (booleans compared case-insensitively)."""
    if col_default_text is None:
        return None
    if kind == 'bool':
        return col_default_text.lower()
    return col_default_text


def note_literal(text):
    """COMMENT ON literal content: the statement only demands that embedded single quotes are
    neutralised; both the renderer's choice (' -> ") and SQL's own doubling are accepted."""
    return {text.replace("'", '"'), text}


def table_facts(m, t):
    pkcols = [c['name'] for c in t['columns'] if c['pk']]
    composite = len(pkcols) > 1
    cols = []
    for c in t['columns']:
        ty = c['type']
        if ty[0] == 'enum':
            tytxt = '.'.join('"' + p.replace('"', '""') + '"' for p in qname(ty[1], ty[2]))
        else:
            tytxt = ty[1]
        cols.append({'name': c['name'], 'type': tytxt, 'pk': bool(c['pk'] and not composite), 'autoinc': c['autoinc'],
                     'unique': c['unique'], 'not_null': c['not_null'], 'default': default_text(c['default']),
                     'default_kind': c['default'][0]})
    pks = [[list(s) for s in i['subjects']] for i in t['indexes'] if i['pk']]
    if composite:
        pks.append([['col', n] for n in pkcols])
    return {'name': qname(t['schema'], t['name']), 'columns': cols, 'pks': pks}


def subj_fact(s):
    if s[0] == 'col':
        return ['col', s[1]]
    if s[0] == 'expr':
        return ['expr', s[1]]
    return ['raw', s[1]]


def facts(m):
    """-> dict of expected facts (C03 part)."""
    out = {'types': [], 'tables': {}, 'indexes': Counter(), 'comments': []}
    for e in m['enums']:
        out['types'].append({'name': qname(e['schema'], e['name']), 'items': [i['name'] for i in e['items']]})
    for t in m['tables']:
        tf = table_facts(m, t)
        for p in tf['pks']:
            for s in p:
                if s[0] == 'str':
                    s[0] = 'raw'
        out['tables'][tuple(tf['name'])] = tf
        for i in t['indexes']:
            if i['pk']:
                continue
            out['indexes'][_tuple([bool(i['unique']), i['name'], tf['name'], (i['type'] or '').upper() or None,
                                   [subj_fact(s) for s in i['subjects']]])] += 1
        if t['note']:
            out['comments'].append(('TABLE', tuple(tf['name']), t['note']))
        for c in t['columns']:
            if c['note']:
                out['comments'].append(('COLUMN', tuple(tf['name'] + [c['name']]), c['note']))
    return out


def join_table_names(m):
    names = set()
    for r in m['refs']:
        if r['type'] == '<>':
            names.add(tuple(qname(r['col1'][0][0], f"{r['col1'][0][1]}_{r['col2'][0][1]}")))
    return names


def compare_c03(m, stmts):
    """-> list of problem strings (empty = the script states exactly the model, C03 clauses)."""
    exp = facts(m)
    probs = []
    types = [s for s in stmts if s['kind'] == 'type']
    got_types = [{'name': s['name'], 'items': s['items']} for s in types]
    if got_types != exp['types']:
        probs.append(f'CREATE TYPE statements {got_types} != expected {exp["types"]}')
    joins = join_table_names(m) - set(exp['tables'])
    seen = Counter()
    for s in stmts:
        if s['kind'] != 'table':
            continue
        nm = tuple(s['name'])
        if nm in joins and nm not in exp['tables']:
            continue
        seen[nm] += 1
        if nm not in exp['tables']:
            probs.append(f'CREATE TABLE {list(nm)} for a table that is not in the model')
            continue
        e = exp['tables'][nm]
        gcols = s['columns']
        if [c['name'] for c in gcols] != [c['name'] for c in e['columns']]:
            probs.append(f'table {list(nm)}: columns {[c["name"] for c in gcols]} != {[c["name"] for c in e["columns"]]}')
            continue
        for g, x in zip(gcols, e['columns']):
            for k in ('type', 'pk', 'autoinc', 'unique', 'not_null'):
                if g[k] != x[k]:
                    probs.append(f'table {list(nm)} column {x["name"]!r}: {k} is {g[k]!r}, expected {x[k]!r}')
            gd = norm_default(g['default'], x['default_kind'])
            if gd != x['default']:
                probs.append(f'table {list(nm)} column {x["name"]!r}: DEFAULT is {g["default"]!r}, expected {x["default"]!r}')
        gpks = sorted(_tuple([p['subjects'] for p in s['pks']]))
        if gpks != sorted(_tuple(e['pks'])):
            probs.append(f'table {list(nm)}: PRIMARY KEY clauses {gpks} != {sorted(_tuple(e["pks"]))}')
    for nm in exp['tables']:
        if seen[nm] != 1:
            probs.append(f'table {list(nm)} has {seen[nm]} CREATE TABLE statements, expected exactly 1')
    got_idx = Counter()
    for s in stmts:
        if s['kind'] == 'index':
            got_idx[_tuple([s['unique'], s['name'], s['table'], (s['using'] or '').upper() or None, s['subjects']])] += 1
    if got_idx != exp['indexes']:
        extra = got_idx - exp['indexes']
        missing = exp['indexes'] - got_idx
        probs.append(f'CREATE INDEX statements differ: unexpected {list(extra.elements())[:2]} missing {list(missing.elements())[:2]}')
    got_c = [(s['entity'], tuple(s['target']), s['text']) for s in stmts if s['kind'] == 'comment_on']
    if len(got_c) != len(exp['comments']):
        probs.append(f'{len(got_c)} COMMENT ON statements, expected {len(exp["comments"])}: {got_c[:3]}')
    else:
        rest = list(got_c)
        for ent, target, text in exp['comments']:
            hit = None
            for k, (ge, gt, gtext) in enumerate(rest):
                if ge == ent and gt == target and gtext in note_literal(text):
                    hit = k
                    break
            if hit is None:
                probs.append(f'no COMMENT ON {ent} {list(target)} IS {text!r}; got {rest[:3]}')
            else:
                rest.pop(hit)
    return probs


# ------------------------------------------------------------------------------------------------
# C04: foreign keys

def _find_col(m, s, t, c):
    for tb in m['tables']:
        if tb['schema'] == s and tb['name'] == t:
            for col in tb['columns']:
                if col['name'] == c:
                    return col
    return None


def _type_text(ty):
    if ty[0] == 'enum':
        return '.'.join('"' + p.replace('"', '""') + '"' for p in qname(ty[1], ty[2]))
    return ty[1]


def fk_facts(m):
    """-> (Counter of fk facts for the non-<> references, list of expected join-table descriptions).
    A fact is (placement, key table, key cols, ref table, ref cols, constraint name, on_update, on_delete)."""
    out = Counter()
    joins = []
    for r in m['refs']:
        ou = r['on_update'].upper() if r['on_update'] else None
        od = r['on_delete'].upper() if r['on_delete'] else None
        if r['type'] == '<>':
            s1, t1 = r['col1'][0][0], r['col1'][0][1]
            s2, t2 = r['col2'][0][0], r['col2'][0][1]
            types1 = [_type_text(_find_col(m, s, t, c)['type']) for s, t, c in r['col1']]
            types2 = [_type_text(_find_col(m, s, t, c)['type']) for s, t, c in r['col2']]
            joins.append({'name': qname(s1, f'{t1}_{t2}'),
                          'left': (qname(s1, t1), [c[2] for c in r['col1']], types1),
                          'right': (qname(s2, t2), [c[2] for c in r['col2']], types2),
                          'on_update': ou, 'on_delete': od})
            continue
        if r['type'] in ('>', '-'):
            key, ref = r['col1'], r['col2']
        else:
            key, ref = r['col2'], r['col1']
        kt = qname(key[0][0], key[0][1])
        rt = qname(ref[0][0], ref[0][1])
        out[_tuple(['inline' if r['inline'] else 'alter', kt, [c[2] for c in key], rt, [c[2] for c in ref], r['name'], ou, od])] += 1
    return out, joins


def read_fk_facts(stmts, skip_tables=()):
    out = Counter()
    for s in stmts:
        if s['kind'] == 'table':
            for fk in s['fks']:
                out[_tuple(['inline', s['name'], fk['cols'], fk['ref_table'], fk['ref_cols'], fk['name'], fk['on_update'], fk['on_delete']])] += 1
        elif s['kind'] == 'alter_fk':
            if tuple(s['table']) in skip_tables:
                continue
            fk = s['fk']
            out[_tuple(['alter', s['table'], fk['cols'], fk['ref_table'], fk['ref_cols'], fk['name'], fk['on_update'], fk['on_delete']])] += 1
    return out


def _join_ok(j, tab, alters):
    """Does CREATE TABLE ``tab`` + the ALTER statements on it realise join description ``j``?
    Column *names* of the join table are the renderer's choice; the statement fixes their number,
    types, NOT NULL, the primary key over all of them and the two foreign keys back."""
    cols = tab['columns']
    want_types = j['left'][2] + j['right'][2]
    if len({c['name'] for c in cols}) != len(cols):
        return 'COLLIDE join table column names are not unique: ' + repr([c['name'] for c in cols])
    if sorted(c['type'] for c in cols) != sorted(want_types):
        return 'column types ' + repr([c['type'] for c in cols]) + ' != referenced column types ' + repr(want_types)
    if not all(c['not_null'] for c in cols):
        return 'a join column is not NOT NULL'
    names = [c['name'] for c in cols]
    pk_sets = [sorted(x[1] for x in p['subjects'] if x[0] == 'col') for p in tab['pks']]
    if len(names) == 1:
        pk_ok = cols[0]['pk'] or pk_sets == [names]
    else:
        pk_ok = pk_sets == [sorted(names)] and not any(c['pk'] for c in cols)
    if not pk_ok:
        return f'primary key is not over all join columns: pks={tab["pks"]} column-level={[c["pk"] for c in cols]}'
    if tab['fks']:
        return 'join table carries inline FOREIGN KEY clauses'
    if len(alters) != 2:
        return f'{len(alters)} foreign keys on the join table, expected 2'
    tymap = {}
    for c in cols:
        tymap.setdefault(c['name'], c['type'])
    rest = list(alters)
    for side in ('left', 'right'):
        rt, rcols, rtypes = j[side]
        hit = None
        for k, a in enumerate(rest):
            fk = a['fk']
            if fk['ref_table'] == rt and fk['ref_cols'] == rcols and len(fk['cols']) == len(rcols) \
                    and all(n in tymap for n in fk['cols']) and [tymap[n] for n in fk['cols']] == rtypes \
                    and fk['on_update'] == j['on_update'] and fk['on_delete'] == j['on_delete']:
                hit = k
                break
        if hit is None:
            return f'no foreign key from the join table back to {rt} {rcols}: {[a["fk"] for a in rest]}'
        rest.pop(hit)
    return None


def compare_c04(m, stmts):
    exp, joins = fk_facts(m)
    declared = {tuple(qname(t['schema'], t['name'])) for t in m['tables']}
    probs = []
    tables = [s for s in stmts if s['kind'] == 'table']
    pool = [s for s in tables if tuple(s['name']) not in declared]
    exp_names = Counter(tuple(j['name']) for j in joins)
    if Counter(tuple(s['name']) for s in pool) != exp_names:
        probs.append(f'join tables {[s["name"] for s in pool]} != expected {[list(k) for k in exp_names.elements()]}')
        join_names = set(exp_names)
    else:
        join_names = set(exp_names)
        alter_pool = [s for s in stmts if s['kind'] == 'alter_fk' and tuple(s['table']) in join_names]
        import itertools
        for j in joins:
            cands = [s for s in pool if s['name'] == j['name']]
            reasons = []
            done = False
            for s in cands:
                al = [a for a in alter_pool if a['table'] == j['name']]
                pairs = list(itertools.combinations(al, 2)) or [tuple(al)]
                for pair in pairs:
                    why = _join_ok(j, s, list(pair))
                    if why is None:
                        pool.remove(s)
                        for a in pair:
                            alter_pool.remove(a)
                        done = True
                        break
                    reasons.append(why)
                if done:
                    break
            if not done:
                # several join tables may share a name: report the collision reason if one of the candidates has it
                why = next((r for r in reasons if r.startswith('COLLIDE')), reasons[-1] if reasons else 'no CREATE TABLE')
                probs.append(f'many-to-many {j["left"][0]} <> {j["right"][0]}: join table {j["name"]}: {why}')
        if alter_pool and not probs:
            probs.append(f'extra foreign keys on join tables: {[a["fk"] for a in alter_pool][:2]}')
    got = read_fk_facts(stmts, skip_tables=join_names - declared)
    if got != exp:
        extra = got - exp
        missing = exp - got
        probs.append(f'FOREIGN KEY facts differ: unexpected {list(extra.elements())[:2]} missing {list(missing.elements())[:2]}')
    return probs
