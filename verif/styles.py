"""Pairwise-complete covering sets of writer styles (deterministic greedy construction).

For every two style dimensions, every pair of their values occurs in at least one style of the set.
The seed only changes *which* covering array is built; every array is pairwise complete, and every
abstract case is written under every style of the array."""
from __future__ import annotations

import itertools
import random
from dataclasses import replace

from .writer import Style

DIMS = {
    'quote': ['bare', 'quoted'],
    'case': ['canon', 'lower', 'upper'],
    'string': ['s', 'd', 't'],
    'airy': [False, True],
    'order': [0, -1, 1, 2],
    'multiline': ['no', 'trail', 'lead'],
    'note_form': ['colon', 'settings', 'block'],
    'note_pos': ['last', 'first', 'middle'],
    'idx_pos': ['last', 'first', 'middle'],
    'ref_form': ['short', 'block'],
    'addr': ['full', 'bare', 'alias'],
    'eof_newline': [True, False],
    'legacy': [False, True],
    'pk_word': ['pk', 'primary key'],
}

_cache = {}


def pairwise(seed=0, dims=None):
    dims = dims or DIMS
    key = (seed, tuple(sorted(dims)))
    if key in _cache:
        return _cache[key]
    rnd = random.Random(1000 + seed)
    names = sorted(dims)
    uncovered = set()
    for a, b in itertools.combinations(names, 2):
        for va in dims[a]:
            for vb in dims[b]:
                uncovered.add((a, va, b, vb))
    out = [Style()]   # the plain style is always a member

    def cover(st):
        d = {n: getattr(st, n) for n in names}
        return {(a, d[a], b, d[b]) for a, b in itertools.combinations(names, 2)}
    uncovered -= cover(out[0])
    while uncovered:
        best, bestc = None, -1
        for _ in range(60):
            # seed the candidate with one uncovered pair so progress is guaranteed
            a, va, b, vb = rnd.choice(sorted(uncovered, key=repr)) if _ == 0 else (None, None, None, None)
            d = {n: rnd.choice(dims[n]) for n in names}
            if a:
                d[a], d[b] = va, vb
            st = replace(Style(), **d)
            c = len(cover(st) & uncovered)
            if c > bestc:
                best, bestc = st, c
        out.append(best)
        uncovered -= cover(best)
    _cache[key] = out
    return out


def style_dict(st: Style):
    return {n: getattr(st, n) for n in sorted(DIMS)}


def from_dict(d):
    return replace(Style(), **d)
