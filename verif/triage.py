"""Developer aid: run a check and print fresh violations grouped by (kind, where, normalised detail)."""
import importlib
import os
import re
import sys
from collections import Counter, defaultdict

from .runner import bind_repo, run_units, merge_parts


def main():
    pid = sys.argv[1].upper()
    tier = sys.argv[2] if len(sys.argv) > 2 else 'quick'
    bind_repo()
    modname = f'verif.props.{pid.lower()}'
    mod = importlib.import_module(modname)
    parts = run_units(modname, mod.units(tier, 0), os.cpu_count())
    tot = merge_parts(parts)
    groups = defaultdict(list)
    for v in tot['violations']:
        c = v['case']
        where = c.get('product') or c.get('pos') or c.get('mode') or ''
        if c.get('mode') == 'ident':
            where = f"ident:{c['pos']}"
        d = re.sub(r'\d+', 'N', v['detail'])[:110]
        groups[(v['kind'], where, d)].append(v)
    for k, vs in sorted(groups.items(), key=lambda kv: -len(kv[1])):
        print(len(vs), k)
        c = vs[0]['case']
        print('     e.g.', str({x: c[x] for x in c if x not in ('elems',)})[:200], str(c.get('elems', ''))[:300])
    print('fresh (capped per unit):', len(tot['violations']), 'known:', dict(tot.get('known_hits', {})))


if __name__ == '__main__':
    main()
