"""E2b: an independent DBML writer.  model (verif.asm form) + Style -> token list -> text.

Shares no code with pydbml/renderer.  Every surface choice the properties name is a Style field.
The output is a list of Tok so that fault injectors (C07/C08) and comment injectors (C14) can address
structural sites; zero-width ``slot`` tokens mark positions by label.
"""
from __future__ import annotations

import re
from dataclasses import dataclass, field, replace

BARE = re.compile(r'[A-Za-z0-9_]+\Z')
KEY_WORDS = {'pk', 'note', 'default', 'ref', 'unique', 'increment', 'null', 'indexes'}


@dataclass(frozen=True)
class Style:
    quote: str = 'bare'        # identifiers: 'bare' (when possible) | 'quoted'
    case: str = 'canon'        # keywords: 'canon' | 'lower' | 'upper'
    string: str = 's'          # 's' '...'  | 'd' "..." | 't' '''...'''
    airy: bool = False         # blank lines, deeper indentation, wider gaps
    order: int = 0             # settings order: 0 identity, -1 reversed, k>0 rotation by k
    multiline: str = 'no'      # settings lists: 'no' | 'trail' (comma at line end) | 'lead' (comma first)
    note_form: str = 'colon'   # table/group/project note: 'settings' | 'colon' | 'block'
    note_pos: str = 'last'     # 'first' | 'middle' | 'last' among body members
    idx_pos: str = 'last'      # index block position among body members
    ref_form: str = 'short'    # non-inline refs: 'short' | 'block'
    addr: str = 'full'         # tables in refs/groups: 'full' (schema.name) | 'bare' (if public) | 'alias' (if any)
    eof_newline: bool = True
    legacy: bool = False       # write pk / unique as bare words after the type (deprecated column syntax)
    pk_word: str = 'pk'        # 'pk' | 'primary key'


@dataclass
class Tok:
    text: str
    kind: str          # kw name str num punct ws nl slot comment raw
    label: str = ''    # for slots: position label; for others: free


CANON_KW = {
    'table': 'Table', 'enum': 'Enum', 'ref': 'Ref', 'tablegroup': 'TableGroup', 'project': 'Project',
    'note': 'Note', 'indexes': 'indexes', 'note:': 'note:', 'Note:': 'Note:',
}


class W:
    def __init__(self, style: Style):
        self.s = style
        self.out: list[Tok] = []
        self.depth = 0

    # ---- primitives
    def kw(self, word, kind='kw'):
        s = self.s.case
        if s == 'lower':
            word = word.lower()
        elif s == 'upper':
            word = word.upper()
        self.out.append(Tok(word, kind))

    def raw(self, text, kind='raw'):
        self.out.append(Tok(text, kind))

    def p(self, ch):
        self.out.append(Tok(ch, 'punct'))

    def sp(self):
        self.out.append(Tok('   ' if self.s.airy else ' ', 'ws'))

    def slot(self, label):
        self.out.append(Tok('', 'slot', label))

    def nl(self, blank_ok=True):
        self.out.append(Tok('\n', 'nl'))
        if self.s.airy and blank_ok:
            self.out.append(Tok('\n', 'nl'))

    def ind(self):
        unit = '      ' if self.s.airy else '  '
        if self.depth:
            self.out.append(Tok(unit * self.depth, 'ws'))

    def ident(self, name):
        if self.s.quote == 'bare' and BARE.match(name):
            self.out.append(Tok(name, 'name'))
        else:
            self.out.append(Tok(f'"{name}"', 'name'))

    def key(self, name):
        """a property / project item key: a word with a meaning of its own in that position is a key only when quoted"""
        if name.lower() in KEY_WORDS:
            self.out.append(Tok(f'"{name}"', 'name'))
        else:
            self.ident(name)

    def string(self, text, style=None):
        self.out.append(Tok(quote(text, style or self.s.string), 'str'))

    def comment_lines(self, text, label):
        """A captured comment block directly above an element: one // line per line of text."""
        if text is None:
            return
        for line in text.split('\n'):
            self.ind()
            self.raw('// ' + line, 'comment')
            self.out.append(Tok('\n', 'nl'))

    def text(self):
        return ''.join(t.text for t in self.out)


def quote(text: str, style: str) -> str:
    """The harness's own escaper.  A raw newline can only live in the ''' form."""
    if '\n' in text:
        style = 't'
    body = text.replace('\\', '\\\\')
    if style == 's':
        return "'" + body.replace("'", "\\'") + "'"
    if style == 'd':
        return '"' + body.replace('"', '\\"') + '"'
    return "'''" + body.replace("'", "\\'") + "'''"


def permute(items, order):
    """items: list of (group, payload).  Entries of group 'ref' and 'prop' keep their relative order
    (the model is ordered there); everything else is permuted."""
    n = len(items)
    if n < 2 or order == 0:
        return items
    if order == -1:
        perm = list(reversed(items))
    else:
        k = order % n
        perm = items[k:] + items[:k]
    for g in ('ref', 'prop'):
        orig = [x for x in items if x[0] == g]
        it = iter(orig)
        perm = [next(it) if x[0] == g else x for x in perm]
    return perm


# ------------------------------------------------------------------------------------------------

def table_address(w: W, m, schema, name):
    """How a ref / group names a table under the style."""
    t = None
    for x in m['tables']:
        if x['schema'] == schema and x['name'] == name:
            t = x
            break
    if w.s.addr == 'alias' and t is not None and t['alias']:
        w.ident(t['alias'])
        return
    if w.s.addr in ('bare', 'alias') and schema == 'public':
        w.ident(name)
        return
    w.ident(schema)
    w.p('.')
    w.ident(name)


def settings_list(w: W, items, trailing_comment=None):
    """items: list of (group, emit_fn).  Writes [a, b, c] in the style's order and layout."""
    items = permute(items, w.s.order)
    ml = w.s.multiline
    w.p('[')
    for k, (_, fn) in enumerate(items):
        if ml != 'no':
            if ml == 'lead' and k:
                w.nl(False)
                w.ind()
                w.p(',')
                w.sp()
            else:
                w.nl(False)
                w.ind()
                w.raw('  ', 'ws')
        elif k:
            w.sp()
        fn()
        if k < len(items) - 1 and ml != 'lead':
            w.p(',')
    if ml != 'no':
        w.nl(False)
        w.ind()
    w.p(']')


def default_tokens(w: W, d):
    kind = d[0]
    if kind == 'int' or kind == 'float':
        w.raw(d[2] if len(d) > 2 else repr(d[1]), 'num')   # optional source spelling, e.g. '007'
    elif kind == 'bool':
        w.kw('true' if d[1] else 'false')
    elif kind == 'null':
        w.kw('null')
    elif kind == 'str':
        w.string(d[1])
    elif kind == 'expr':
        w.raw('`' + d[1] + '`', 'str')
    else:
        raise ValueError(d)


def inline_refs_of(m, t, c):
    """Inline refs declared on column c of table t (model order)."""
    out = []
    for r in m['refs']:
        if (r['inline'] or r.get('_written_inline')) and len(r['col1']) == 1 \
                and r['col1'][0] == [t['schema'], t['name'], c['name']]:
            out.append(r)
    return out


def write_column(w: W, m, t, c, path):
    w.slot(f'above:{path}')
    w.ind()
    w.ident(c['name'])
    w.sp()
    ty = c['type']
    if ty[0] == 'enum':
        if ty[1] != 'public' or w.s.addr == 'full':
            w.ident(ty[1])
            w.p('.')
        w.ident(ty[2])
    else:
        # plain type text: a bare word may be written bare or quoted; word(args) / word[] only verbatim;
        # anything else (spaces, dots, punctuation) only double-quoted
        txt = ty[1]
        if BARE.match(txt):
            w.ident(txt)
        elif re.match(r'[A-Za-z0-9_]+(\(.*\)|\[\])\Z', txt, re.S):
            w.raw(txt, 'name')
        else:
            w.raw(f'"{txt}"', 'name')
    items = []
    legacy = []
    if c['pk']:
        if w.s.legacy:
            legacy.append('pk')
        else:
            items.append(('flag', lambda: w.kw(w.s.pk_word)))
    if c['unique']:
        if w.s.legacy:
            legacy.append('unique')
        else:
            items.append(('flag', lambda: w.kw('unique')))
    for word in legacy:
        w.sp()
        w.kw(word)
    if c['not_null']:
        items.append(('flag', lambda: w.kw('not null')))
    if c.get('null_explicit'):
        items.append(('flag', lambda: w.kw('null')))
    if c['autoinc']:
        items.append(('flag', lambda: w.kw('increment')))
    d = c.get('default_src') or c['default']
    if d[0] != 'none':
        def f(d=d):
            w.kw('default:')
            w.sp()
            default_tokens(w, d)
        items.append(('flag', f))
    if c['note']:
        def f():
            w.kw('note:')
            w.sp()
            w.string(c['note'])
        items.append(('flag', f))
    for r in inline_refs_of(m, t, c):
        def f(r=r):
            w.raw('ref:', 'kw')
            w.sp()
            w.raw(r['type'], 'punct')
            w.sp()
            s2, t2, c2 = r['col2'][0]
            table_address(w, m, s2, t2)
            w.p('.')
            w.ident(c2)
        items.append(('ref', f))
    for k, v in c['properties']:
        def f(k=k, v=v):
            w.key(k)
            w.p(':')
            w.sp()
            w.string(v)
        items.append(('prop', f))
    if items:
        w.sp()
        w.slot(f'presettings:{path}')
        settings_list(w, items)
    if c['comment'] is not None:
        w.sp()
        w.raw('// ' + c['comment'], 'comment')
    w.slot(f'eol:{path}')
    w.nl()


def write_index(w: W, i, path):
    w.slot(f'above:{path}')
    if i['comment'] is not None and '\n' in i['comment']:
        w.comment_lines(i['comment'], path)
    w.ind()
    subs = i['subjects']

    def one(s):
        if s[0] == 'col' or s[0] == 'str':
            w.ident(s[1])
        else:
            w.raw('`' + s[1] + '`', 'str')
    if len(subs) == 1 and not i.get('force_paren'):
        one(subs[0])
    else:
        w.p('(')
        for k, s in enumerate(subs):
            if k:
                w.p(',')
                w.sp()
            one(s)
        w.p(')')
    items = []
    if i['pk']:
        items.append(('flag', lambda: w.kw('pk')))
    if i['unique']:
        items.append(('flag', lambda: w.kw('unique')))
    if i['type']:
        def f():
            w.kw('type:')
            w.sp()
            w.kw(i['type'])
        items.append(('flag', f))
    if i['name']:
        def f():
            w.kw('name:')
            w.sp()
            w.string(i['name'])
        items.append(('flag', f))
    if i['note']:
        def f():
            w.kw('note:')
            w.sp()
            w.string(i['note'])
        items.append(('flag', f))
    if items:
        w.sp()
        w.slot(f'presettings:{path}')
        settings_list(w, items)
    if i['comment'] is not None and '\n' not in i['comment']:
        w.sp()
        w.raw('// ' + i['comment'], 'comment')
    w.slot(f'eol:{path}')
    w.nl()


def write_note_member(w: W, text, form):
    w.ind()
    if form == 'block':
        w.kw('Note')
        w.sp()
        w.p('{')
        w.nl(False)
        w.depth += 1
        w.ind()
        w.string(text)
        w.nl(False)
        w.depth -= 1
        w.ind()
        w.p('}')
    else:
        w.kw('Note:')
        w.sp()
        w.string(text)
    w.nl()


def place(members, extra, pos):
    """Insert ``extra`` into the member list at first / middle / last."""
    if extra is None:
        return members
    if pos == 'first':
        return [extra] + members
    if pos == 'middle':
        k = len(members) // 2
        return members[:k] + [extra] + members[k:]
    return members + [extra]


def write_table(w: W, m, t, ti):
    path = f'table{ti}'
    w.slot(f'above:{path}')
    w.comment_lines(t['comment'], path)
    w.ind()
    w.kw('Table')
    w.sp()
    if t['schema'] != 'public' or w.s.addr == 'full':
        w.ident(t['schema'])
        w.p('.')
    w.ident(t['name'])
    if t['alias']:
        w.sp()
        w.raw('as', 'kw')
        w.sp()
        w.ident(t['alias'])
    items = []
    if t['header_color']:
        def f():
            w.kw('headercolor:')
            w.sp()
            w.raw(t['header_color'], 'num')
        items.append(('flag', f))
    note_in_settings = t['note'] and w.s.note_form == 'settings'
    if note_in_settings:
        def f():
            w.kw('note:')
            w.sp()
            w.string(t['note'])
        items.append(('flag', f))
    if items:
        w.sp()
        settings_list(w, items)
    w.sp()
    w.p('{')
    w.slot(f'afterbrace:{path}')
    w.nl()
    w.depth += 1
    members = [('col', k) for k in range(len(t['columns']))]
    props = [('prop', k) for k in range(len(t['properties']))]
    pp = t.get('prop_pos', 'last')          # surface choice: where the arbitrary properties sit in the body (their order is kept)
    if pp == 'first':
        members = props + members
    elif pp == 'middle':
        h = len(members) // 2
        members = members[:h] + props + members[h:]
    elif pp == 'split' and len(props) > 1:
        members = props[:1] + members + props[1:]
    else:
        members = members + props
    if t['note'] and not note_in_settings:
        members = place(members, ('note', 0), w.s.note_pos)
    split = t.get('idx_split')          # surface choice: the indexes written as two blocks (first `split` ones, then the rest at the end)
    if t['indexes']:
        members = place(members, ('idx', 0), w.s.idx_pos)
        if split and 0 < split < len(t['indexes']):
            members = members + [('idx', 1)]
    for kind, k in members:
        if kind == 'col':
            write_column(w, m, t, t['columns'][k], f'{path}.col{k}')
        elif kind == 'prop':
            w.ind()
            key, val = t['properties'][k]
            w.key(key)
            w.p(':')
            w.sp()
            w.string(val)
            w.nl()
        elif kind == 'note':
            w.slot(f'member:{path}.note')
            write_note_member(w, t['note'], w.s.note_form)
        else:
            w.slot(f'member:{path}.indexes')
            w.ind()
            w.kw('indexes')
            w.sp()
            w.p('{')
            w.nl()
            w.depth += 1
            for j, i in enumerate(t['indexes']):
                if split and 0 < split < len(t['indexes']) and (j < split) != (k == 0):
                    continue
                write_index(w, i, f'{path}.idx{j}')
            w.depth -= 1
            w.ind()
            w.p('}')
            w.nl()
    w.depth -= 1
    w.slot(f'beforeclose:{path}')
    w.ind()
    w.p('}')
    w.slot(f'afterclose:{path}')
    w.nl()


def write_enum(w: W, e, ei):
    path = f'enum{ei}'
    w.slot(f'above:{path}')
    w.comment_lines(e['comment'], path)
    w.ind()
    w.kw('Enum')
    w.sp()
    if e['schema'] != 'public' or w.s.addr == 'full':
        w.ident(e['schema'])
        w.p('.')
    w.ident(e['name'])
    w.sp()
    w.p('{')
    w.depth += 1
    for k, it in enumerate(e['items']):
        # (the newline that ends the previous line belongs to the next item: blank lines are only
        #  admissible *before* an item in the pinned grammar)
        w.slot(f'eol:{path}.item{k - 1}' if k else f'afterbrace:{path}')
        w.nl()
        ip = f'{path}.item{k}'
        w.slot(f'above:{ip}')
        multi = it['comment'] is not None and ('\n' in it['comment'] or it.get('comment_above'))
        if multi:
            w.comment_lines(it['comment'], ip)
        w.ind()
        w.ident(it['name'])
        if it['note']:
            w.sp()
            w.p('[')
            w.kw('note:')
            w.sp()
            w.string(it['note'])
            w.p(']')
        if it['comment'] is not None and not multi:
            w.sp()
            w.raw('// ' + it['comment'], 'comment')
    w.depth -= 1
    w.slot(f'eol:{path}.item{len(e["items"]) - 1}')
    w.out.append(Tok('\n', 'nl'))
    w.ind()
    w.p('}')
    w.slot(f'afterclose:{path}')
    w.nl()


def write_ref_cols(w: W, m, cols):
    s, t, _ = cols[0]
    table_address(w, m, s, t)
    w.p('.')
    if len(cols) == 1:
        w.ident(cols[0][2])
    else:
        w.p('(')
        for k, c in enumerate(cols):
            if k:
                w.p(',')
                w.sp()
            w.ident(c[2])
        w.p(')')


def write_ref(w: W, m, r, ri):
    path = f'ref{ri}'
    w.slot(f'above:{path}')
    multi = r['comment'] is not None and ('\n' in r['comment'] or r.get('comment_above'))
    if multi:
        w.comment_lines(r['comment'], path)
    w.ind()
    w.kw('Ref')
    block = w.s.ref_form == 'block'
    if r['name']:
        w.sp()
        w.ident(r['name'])
    if block:
        w.sp()
        w.p('{')
        w.nl(False)
        w.depth += 1
        w.ind()
    else:
        w.p(':')
        w.sp()
    write_ref_cols(w, m, r['col1'])
    w.sp()
    w.raw(r['type'], 'punct')
    w.sp()
    write_ref_cols(w, m, r['col2'])
    items = []
    if r['on_update']:
        def f():
            w.kw('update:')
            w.sp()
            w.kw(r['on_update'])
        items.append(('flag', f))
    if r['on_delete']:
        def f():
            w.kw('delete:')
            w.sp()
            w.kw(r['on_delete'])
        items.append(('flag', f))
    if items:
        w.sp()
        w.slot(f'presettings:{path}')
        settings_list(w, items)
    if r['comment'] is not None and not multi:
        w.sp()
        w.raw('// ' + r['comment'], 'comment')
    w.slot(f'eol:{path}')
    if block:
        w.nl(False)
        w.depth -= 1
        w.ind()
        w.p('}')
    w.nl()


def write_group(w: W, m, g, gi):
    path = f'group{gi}'
    w.slot(f'above:{path}')
    w.comment_lines(g['comment'], path)
    w.ind()
    w.kw('TableGroup')
    w.sp()
    w.ident(g['name'])
    items = []
    if g['color']:
        def f():
            w.kw('color:')
            w.sp()
            w.raw(g['color'], 'num')
        items.append(('flag', f))
    has_note = bool(g['note']) or g.get('force_note')        # surface choice: an explicitly empty note (`Note: ''`)
    note_in_settings = has_note and w.s.note_form == 'settings'
    if note_in_settings:
        def f():
            w.kw('note:')
            w.sp()
            w.string(g['note'])
        items.append(('flag', f))
    if items:
        w.sp()
        settings_list(w, items)
    w.sp()
    w.p('{')
    w.slot(f'afterbrace:{path}')
    w.nl()
    w.depth += 1
    members = [('tab', k) for k in range(len(g['items']))]
    if has_note and not note_in_settings:
        members = place(members, ('note', 0), w.s.note_pos)
    for kind, k in members:
        if kind == 'tab':
            w.slot(f'member:{path}.item{k}')
            w.ind()
            s, t = g['items'][k]
            table_address(w, m, s, t)
            w.nl()
        else:
            write_note_member(w, g['note'], w.s.note_form)
    w.depth -= 1
    w.slot(f'beforeclose:{path}')
    w.ind()
    w.p('}')
    w.slot(f'afterclose:{path}')
    w.nl()


def write_sticky(w: W, n, ni):
    path = f'sticky{ni}'
    w.slot(f'above:{path}')
    w.ind()
    w.kw('Note')
    w.sp()
    w.ident(n['name'])
    w.sp()
    w.p('{')
    w.slot(f'afterbrace:{path}')
    w.nl(False)
    w.depth += 1
    w.ind()
    w.string(n['text'])
    w.nl(False)
    w.depth -= 1
    w.ind()
    w.p('}')
    w.slot(f'afterclose:{path}')
    w.nl()


def write_project(w: W, p):
    path = 'project'
    w.slot(f'above:{path}')
    w.comment_lines(p['comment'], path)
    w.ind()
    w.kw('Project')
    w.sp()
    w.ident(p['name'])
    w.sp()
    w.p('{')
    w.slot(f'afterbrace:{path}')
    w.nl()
    w.depth += 1
    members = [('item', k) for k in range(len(p['items']))]
    if p['note']:
        members = place(members, ('note', 0), w.s.note_pos)
    for kind, k in members:
        w.slot(f'member:{path}.{kind}{k}')
        if kind == 'item':
            w.ind()
            key, val = p['items'][k]
            w.key(key)
            w.p(':')
            w.sp()
            w.string(val)
            w.nl()
        else:
            write_note_member(w, p['note'], 'block' if w.s.note_form == 'block' else 'colon')
    w.depth -= 1
    w.slot(f'beforeclose:{path}')
    w.ind()
    w.p('}')
    w.slot(f'afterclose:{path}')
    w.nl()


DEFAULT_ORDER = ('project', 'enums', 'tables', 'refs', 'groups', 'notes')


def tokens(m, style: Style = Style(), order=None):
    """order: optional explicit top-level sequence [('table', i), ('ref', j), ...]; default: kind by kind.
    Inline refs are written inside their column and never as top-level elements."""
    w = W(style)
    w.slot('bof')
    if order is None:
        order = []
        if m['project'] is not None:
            order.append(('project', 0))
        order += [('enum', i) for i in range(len(m['enums']))]
        order += [('table', i) for i in range(len(m['tables']))]
        order += [('ref', i) for i, r in enumerate(m['refs']) if not (r['inline'] or r.get('_written_inline'))]
        order += [('group', i) for i in range(len(m['groups']))]
        order += [('note', i) for i in range(len(m['notes']))]
    for kind, i in order:
        if kind == 'project':
            write_project(w, m['project'])
        elif kind == 'enum':
            write_enum(w, m['enums'][i], i)
        elif kind == 'table':
            write_table(w, m, m['tables'][i], i)
        elif kind == 'ref':
            write_ref(w, m, m['refs'][i], i)
        elif kind == 'group':
            write_group(w, m, m['groups'][i], i)
        elif kind == 'note':
            write_sticky(w, m['notes'][i], i)
    w.slot('eof')
    toks = w.out
    if not style.eof_newline:
        while toks and toks[-1].kind in ('nl', 'slot'):
            toks.pop()
        toks.append(Tok('', 'slot', 'eof'))
    return toks


def write(m, style: Style = Style(), order=None) -> str:
    return ''.join(t.text for t in tokens(m, style, order))


SURFACE_KEYS = ('default_src', 'null_explicit', 'force_paren', 'comment_above', '_written_inline', '_nrefs', 'prop_pos', 'idx_split', 'force_note')


def expected(m):
    """The model the parser must produce for ``m``: ``m`` without the writer-only surface keys."""
    if isinstance(m, dict):
        return {k: expected(v) for k, v in m.items() if k not in SURFACE_KEYS}
    if isinstance(m, list):
        return [expected(v) for v in m]
    return m
